import IrefVerif.Model.DataUrl

/-!
# Data URL delimiters

What `DataUrlDelimiters::parse` establishes, and that the re-scanning accessors of the borrowed
form find the same places (in particular: their `loop {}`s terminate, because `parse` has shown
that the text contains the delimiter they look for).
-/

set_option linter.unusedSimpArgs false

namespace IrefVerif.Lemmas
open IrefVerif.Spec IrefVerif.Model.DataUrl

/-- `;base64` -/
def semiBase64 : Text := [0x3B, 0x62, 0x61, 0x73, 0x65, 0x36, 0x34]

/-- the shape established by a successful scan: `suffix = mt ++ [";base64"] ++ "," ++ data` -/
structure Shape (suffix : Text) (d : Delimiters) : Prop where
  mtLen : 5 ≤ d.media_type_end
  mtChars : ∀ c ∈ suffix.take (d.media_type_end - 5), isMediaTypeChar c = true
  split : suffix = suffix.take (d.media_type_end - 5) ++
            (if d.base_64 then semiBase64 else []) ++ cComma :: suffix.drop (d.data_start - 5)
  dataStart : d.data_start = d.media_type_end + (if d.base_64 then 8 else 1)

theorem mt_not_delim {c : Nat} (h : isMediaTypeChar c = true) : c ≠ cComma ∧ c ≠ cSemi := by
  constructor <;> (intro e; subst e; simp [isMediaTypeChar, cComma, cSemi] at h)

theorem parseGo_shape (suffix : Text) : ∀ (rest : Text) (i : Nat) (d : Delimiters),
    rest = suffix.drop i → i ≤ suffix.length → (∀ c ∈ suffix.take i, isMediaTypeChar c = true) →
    parseGo suffix i rest = some d → Shape suffix d := by
  intro rest
  induction rest with
  | nil => intro i d _ _ _ h; simp [parseGo] at h
  | cons c rest ih =>
    intro i d hrest hi hmt h
    have hdrop1 : rest = suffix.drop (i + 1) := by
      have := congrArg List.tail hrest
      simpa [List.tail_drop] using this
    have hsplit : suffix = suffix.take i ++ c :: suffix.drop (i + 1) := by
      have := List.take_append_drop i suffix
      rw [← hrest, hdrop1] at this
      exact this.symm
    simp only [parseGo] at h
    by_cases hc : (c == cComma) = true
    · have : c = cComma := by simpa using hc
      subst this
      simp only [beq_self_eq_true, if_true] at h
      injection h with h; subst h
      refine ⟨by simp, by simpa using hmt, ?_, by simp⟩
      simp only [Nat.add_sub_cancel_left, Bool.false_eq_true, if_false, List.append_nil]
      have : 5 + i + 1 - 5 = i + 1 := by omega
      rw [this]; exact hsplit
    · have hc' : (c == cComma) = false := by simpa using hc
      simp only [hc', Bool.false_eq_true, if_false] at h
      by_cases hs : (c == cSemi) = true
      · have : c = cSemi := by simpa using hs
        subst this
        simp only [beq_self_eq_true, if_true] at h
        split at h
        · rename_i hb
          injection h with h; subst h
          simp only [Bool.and_eq_true, decide_eq_true_eq, beq_iff_eq] at hb
          obtain ⟨hlen, hb64⟩ := hb
          refine ⟨by simp, by simpa using hmt, ?_, by simp; omega⟩
          simp only [Nat.add_sub_cancel_left, if_true]
          -- suffix.drop (i+1) = "base64," ++ suffix.drop (i+8)
          have hd : suffix.drop (i + 1) = base64Comma ++ suffix.drop (i + 8) := by
            have := List.take_append_drop 7 (suffix.drop (i + 1))
            rw [hb64, List.drop_drop] at this
            rw [← this]
          have : suffix.take i ++ semiBase64 ++ cComma :: suffix.drop (i + 8)
              = suffix.take i ++ cSemi :: (base64Comma ++ suffix.drop (i + 8)) := by
            simp [semiBase64, base64Comma, cSemi, cComma]
          rw [this, ← hd]; exact hsplit
        · cases h
      · have hs' : (c == cSemi) = false := by simpa using hs
        simp only [hs', Bool.false_eq_true, if_false] at h
        split at h
        · rename_i hm
          apply ih (i + 1) d hdrop1
          · have : i < suffix.length := by
              have := congrArg List.length hrest
              simp at this; omega
            omega
          · intro x hx
            -- suffix.take (i+1) = suffix.take i ++ [c]
            have ht : suffix.take (i + 1) = suffix.take i ++ [c] := by
              have hget : suffix[i]? = some c := by
                rw [← List.head?_drop, ← hrest]; rfl
              rw [List.take_add_one, hget]; rfl
            rw [ht] at hx
            rcases List.mem_append.mp hx with hx | hx
            · exact hmt x hx
            · simp at hx; subst hx; exact hm
          · exact h
        · cases h

end IrefVerif.Lemmas

namespace IrefVerif.Lemmas
open IrefVerif.Spec IrefVerif.Model.DataUrl

theorem drop5_prefix (suffix : Text) : (dataPrefix ++ suffix).drop 5 = suffix := by
  simp [dataPrefix]

theorem findFirst_spec (p : Nat → Bool) (pre : Text) (c : Nat) (rest : Text) (k : Nat)
    (hpre : ∀ x ∈ pre, p x = false) (hc : p c = true) :
    findFirst p k (pre ++ c :: rest) = some (k + pre.length) := by
  induction pre generalizing k with
  | nil => simp [findFirst, hc]
  | cons x pre ih =>
    have hx := hpre x List.mem_cons_self
    simp only [List.cons_append, findFirst, hx, Bool.false_eq_true, if_false]
    rw [ih (k + 1) (fun y hy => hpre y (List.mem_cons_of_mem _ hy))]
    simp; omega

/-- everything `parse` establishes about an accepted text -/
theorem parse_shape (url : Text) (d : Delimiters) (h : parse url = some d) :
    ∃ suffix, url = dataPrefix ++ suffix ∧ Shape suffix d := by
  unfold parse at h
  split at h
  · rename_i hp
    have hurl : url = dataPrefix ++ url.drop 5 := by
      have := List.prefix_iff_eq_append.mp (List.isPrefixOf_iff_prefix.mp hp)
      have hl : dataPrefix.length = 5 := rfl
      rw [hl] at this
      exact this.symm
    exact ⟨url.drop 5, hurl, parseGo_shape (url.drop 5) (url.drop 5) 0 d rfl (Nat.zero_le _) (by simp) h⟩
  · cases h

/-- **reassembly**: `data:` media-type [`;base64`] `,` data is the original text -/
theorem reassemble (url : Text) (d : Delimiters) (h : parse url = some d) :
    dataPrefix ++ (url.take d.media_type_end).drop 5 ++ (if d.base_64 then semiBase64 else []) ++
      cComma :: ownedData d url = url := by
  obtain ⟨suffix, hurl, sh⟩ := parse_shape url d h
  have hmt : (url.take d.media_type_end).drop 5 = suffix.take (d.media_type_end - 5) := by
    rw [hurl, List.drop_take]
    rw [drop5_prefix]
  have hdata : ownedData d url = suffix.drop (d.data_start - 5) := by
    unfold ownedData
    have h5 : 5 ≤ d.data_start := by
      have h1 := sh.dataStart; have h2 := sh.mtLen
      have : 1 ≤ (if d.base_64 = true then 8 else 1) := by split <;> omega
      omega
    have : d.data_start = 5 + (d.data_start - 5) := by omega
    rw [hurl, this, ← List.drop_drop]
    rw [drop5_prefix]; simp
  rw [hmt, hdata]
  conv => rhs; rw [hurl, sh.split]
  simp [List.append_assoc]

/-- the borrowed accessors (which re-scan the text) terminate and agree with the offsets -/
theorem borrowed_eq_owned (url : Text) (d : Delimiters) (h : parse url = some d) :
    borrowedMediaType url = some (ownedMediaType d url) ∧
    borrowedIsBase64 url = some d.base_64 ∧
    borrowedData url = some (ownedData d url) := by
  obtain ⟨suffix, hurl, sh⟩ := parse_shape url d h
  have hre := reassemble url d h
  have hmtc := sh.mtChars
  have hmt : (url.take d.media_type_end).drop 5 = suffix.take (d.media_type_end - 5) := by
    rw [hurl, List.drop_take]
    rw [drop5_prefix]
  generalize hm : suffix.take (d.media_type_end - 5) = mt at hmtc hmt
  rw [hmt] at hre
  have hpre : ∀ x ∈ dataPrefix ++ mt, (x == cSemi || x == cComma) = false := by
    intro x hx
    rcases List.mem_append.mp hx with hx | hx
    · simp [dataPrefix] at hx
      rcases hx with rfl | rfl | rfl | rfl | rfl <;> simp [cSemi, cComma]
    · have := mt_not_delim (hmtc x hx)
      simp [this.1, this.2]
  have hlen : (dataPrefix ++ mt).length = d.media_type_end := by
    have h1 : mt.length = d.media_type_end - 5 := by
      rw [← hm, List.length_take]
      have : d.media_type_end - 5 ≤ suffix.length := by
        have hs := congrArg List.length sh.split
        simp only [List.length_append, List.length_cons, List.length_take] at hs
        omega
      omega
    have := sh.mtLen
    simp [dataPrefix, h1]; omega
  cases hb : d.base_64 with
  | false =>
    rw [hb] at hre
    simp only [Bool.false_eq_true, if_false, List.append_nil] at hre
    have hff := findFirst_spec (fun c => c == cSemi || c == cComma) (dataPrefix ++ mt) cComma
      (ownedData d url) 0 hpre (by simp)
    have hfc := findFirst_spec (fun c => c == cComma) (dataPrefix ++ mt) cComma
      (ownedData d url) 0 (fun x hx => by have := hpre x hx; simp at this; simpa using this.2) (by simp)
    rw [hre, hlen, Nat.zero_add] at hff hfc
    refine ⟨?_, ?_, ?_⟩
    · simp only [borrowedMediaType, hff, Option.map, ownedMediaType]
    · simp only [borrowedIsBase64, hff, Option.map]
      have : url.getD d.media_type_end 0 = cComma := by
        rw [← hre, ← hlen]; simp [List.getD_eq_getElem?_getD]
      rw [this]; rfl
    · simp only [borrowedData, hfc, Option.map, ownedData]
      have hds := sh.dataStart
      rw [hb] at hds
      simp only [Bool.false_eq_true, if_false] at hds
      rw [hds]
  | true =>
    rw [hb] at hre
    simp only [if_true] at hre
    have hre' : (dataPrefix ++ mt) ++ cSemi :: ([0x62, 0x61, 0x73, 0x65, 0x36, 0x34] ++ cComma :: ownedData d url) = url := by
      have e : (dataPrefix ++ mt) ++ cSemi :: ([0x62, 0x61, 0x73, 0x65, 0x36, 0x34] ++ cComma :: ownedData d url)
          = dataPrefix ++ mt ++ semiBase64 ++ cComma :: ownedData d url := by
        simp [semiBase64, cSemi, List.append_assoc]
      rw [e]; exact hre
    have hff := findFirst_spec (fun c => c == cSemi || c == cComma) (dataPrefix ++ mt) cSemi
      ([0x62, 0x61, 0x73, 0x65, 0x36, 0x34] ++ cComma :: ownedData d url) 0 hpre (by simp)
    rw [hre', hlen, Nat.zero_add] at hff
    have hpre2 : ∀ x ∈ dataPrefix ++ mt ++ semiBase64, (x == cComma) = false := by
      intro x hx
      rcases List.mem_append.mp hx with hx | hx
      · have := hpre x hx; simp at this; simpa using this.2
      · simp [semiBase64] at hx
        rcases hx with rfl | rfl | rfl | rfl | rfl | rfl | rfl <;> simp [cComma]
    have hfc := findFirst_spec (fun c => c == cComma) (dataPrefix ++ mt ++ semiBase64) cComma
      (ownedData d url) 0 hpre2 (by simp)
    have hre2 : dataPrefix ++ mt ++ semiBase64 ++ cComma :: ownedData d url = url := hre
    rw [hre2, Nat.zero_add] at hfc
    have hlen2 : (dataPrefix ++ mt ++ semiBase64).length = d.media_type_end + 7 := by
      rw [List.length_append, hlen]; rfl
    refine ⟨?_, ?_, ?_⟩
    · simp only [borrowedMediaType, hff, Option.map, ownedMediaType]
    · simp only [borrowedIsBase64, hff, Option.map]
      have : url.getD d.media_type_end 0 = cSemi := by
        rw [← hre', ← hlen]; simp [List.getD_eq_getElem?_getD]
      rw [this]; rfl
    · simp only [borrowedData, hfc, Option.map, ownedData, hlen2]
      have hds := sh.dataStart
      rw [hb] at hds
      simp only [if_true] at hds
      rw [hds]

end IrefVerif.Lemmas
