import IrefVerif.Lemmas.ResolveRelNoAuth
import IrefVerif.Lemmas.RelBaseSegs

/-!
# The relative-path branch of `resolve`, base without authority and with a relative or empty path

Same argument as `Lemmas/ResolveRelNoAuth.lean`, on relative views (`Lemmas/SymRel.lean`): the
walk keeps the `..`s it cannot resolve (Errata 4547), the last `normalize` shields a first empty
segment (`.//a`), which the RFC target does not have — its path would be absolute — so the
equation is stated where the target path is relative.
-/

set_option linter.unusedSimpArgs false

namespace IrefVerif.Lemmas
open IrefVerif IrefVerif.Spec IrefVerif.Model IrefVerif.Oracle IrefVerif.Findings RE

theorem rinv_noSlash {v : Text} {L : List Text} (inv : RInv v L) : ∀ s ∈ L, cSlash ∉ s := by
  intro s hs
  rcases inv.shape with h | h
  · exact segs_no_slash v s (by rw [h]; exact hs)
  · exact segs_no_slash v s (by rw [h]; exact List.mem_cons_of_mem _ hs)

/-- a normalised relative path is a state of the walk -/
theorem rinv_normView (fa atStart : Bool) (p : Text) (hp : PathText p) (hrel : isAbs p = false) :
    RInv (normView fa atStart p) (nsegs p) := by
  obtain ⟨hr, ha⟩ := normView_realises fa atStart p hp
  refine ⟨by rw [ha]; exact hrel, pathText_normView _ _ _ hp, ?_, realises_cases hr⟩
  unfold nsegs; rw [hrel]; exact semiNormal_nsegsOf _

theorem startsSS_isAbs {p : Text} (h : isAbs p = false) : startsSS p = false := by
  cases p with
  | nil => rfl
  | cons a r =>
    have ha : a ≠ cSlash := by intro e; subst e; simp [isAbs] at h
    cases r with
    | nil => rfl
    | cons b r' => simp [startsSS, ha]

theorem joinSlash_head {c : Nat} {r : Text} (rest : List Text) :
    ∃ t, joinSlash ((c :: r) :: rest) = c :: t := by
  cases rest with
  | nil => exact ⟨r, rfl⟩
  | cons a l => exact ⟨r ++ cSlash :: joinSlash (a :: l), rfl⟩

theorem finalizeN_rinv {v : Text} {E : List Text} (inv : RInv v E)
    (hE : ∀ first rest, E = first :: rest → first ≠ [] ∨ rest = []) : finalizeN v = joinSlash E := by
  unfold finalizeN normView
  have hrel : Path.is_relative v = true := by simp [Path.is_relative, is_absolute_eq, inv.rel]
  simp only [normalized_segments_eq v inv.pt, joinSegs_eq, rinv_nsegs inv, hrel, inv.rel, Bool.false_eq_true, if_false,
    Bool.true_or, Bool.and_true, Bool.and_false, Bool.false_and, Bool.or_false, List.nil_append]
  have hns := rinv_noSlash inv
  have hnd := semiNormal_noDot inv.sn
  cases E with
  | nil => simp [joinSlash, cSlash, cDot]
  | cons first rest =>
    rcases hE first rest rfl with h | h
    · obtain ⟨c, r, hcr⟩ : ∃ c r, first = c :: r := by
        cases first with
        | nil => exact absurd rfl h
        | cons c r => exact ⟨c, r, rfl⟩
      subst hcr
      have hc : c ≠ cSlash := fun e => hns (c :: r) List.mem_cons_self (e ▸ List.mem_cons_self)
      simp only [List.isEmpty_cons, Bool.false_eq_true, if_false, List.nil_append]
      have h1 : (joinSlash ((c :: r) :: rest) == [cSlash, cDot, cSlash]) = false := by
        obtain ⟨t, ht⟩ := joinSlash_head (c := c) (r := r) rest
        rw [ht]; simp [hc]
      have h2 : (joinSlash ((c :: r) :: rest) == [cDot, cSlash]) = false := by
        have := joinSlash_ne_dotSlash ((c :: r) :: rest) hns hnd
        simpa using this
      simp only [h1, h2, Bool.or_self, Bool.false_eq_true, if_false]
    · subst h
      by_cases hfe : first = []
      · subst hfe
        simp [joinSlash, clearView, isAbs, cSlash, cDot]
      · obtain ⟨c, r, hcr⟩ : ∃ c r, first = c :: r := by
          cases first with
          | nil => exact absurd rfl hfe
          | cons c r => exact ⟨c, r, rfl⟩
        subst hcr
        have hc : c ≠ cSlash := fun e => hns (c :: r) List.mem_cons_self (e ▸ List.mem_cons_self)
        simp only [List.isEmpty_cons, Bool.false_eq_true, if_false, List.nil_append, joinSlash]
        have h1 : (c :: r == [cSlash, cDot, cSlash]) = false := by simp [hc]
        have h2 : (c :: r == [cDot, cSlash]) = false := by
          have := joinSlash_ne_dotSlash [c :: r] hns hnd
          simpa [joinSlash] using this
        simp only [h1, h2, Bool.or_self, Bool.false_eq_true, if_false]

/-- the relative branch on relative views -/
theorem relative_view_rel (v0 : Text) (L0 : List Text) (ss : List Text) (inv : RInv v0 L0)
    (hall : ∀ s ∈ ss, cSlash ∉ s ∧ PathText s) (hsk : symSkipsGo false L0 ss = false)
    (hX : ∀ first rest, walkR L0 ss ++ (if lastDot ss && !(walkR L0 ss).isEmpty then [[]] else []) = first :: rest →
      first ≠ [] ∨ rest = []) :
    finalizeN (symAppendView false false false v0 ss) =
      joinSlash (walkR L0 ss ++ (if lastDot ss && !(walkR L0 ss).isEmpty then [[]] else [])) := by
  obtain ⟨i1, f1⟩ := rinv_loop false false ss v0 false L0 inv hall hsk
  have ho : (symAppendGoView false false false v0 false ss).2 = lastDot ss := by
    rw [f1]
    split
    · rename_i h; subst h; rfl
    · rfl
  unfold symAppendView closeView
  rw [ho]
  generalize (symAppendGoView false false false v0 false ss).1 = v' at i1
  generalize walkR L0 ss = E at i1 hX
  by_cases hc : (lastDot ss && !Path.is_empty v') = true
  · simp only [hc, if_true]
    have i2 := rinv_push false false v' [] E i1 (by simp) (by intro c hc; cases hc) (by decide) (by decide)
    simp only [Bool.and_eq_true] at hc
    rw [hc.1] at hX ⊢
    cases E with
    | nil =>
      rw [finalizeN_rinv i2 (by intro f r h; simp at h; exact .inr h.2)]
      simp [joinSlash]
    | cons a b =>
      simp only [Bool.true_and, List.isEmpty_cons, Bool.not_false, if_true] at hX ⊢
      exact finalizeN_rinv i2 hX
  · have hc' : (lastDot ss && !Path.is_empty v') = false := by simpa using hc
    simp only [hc', Bool.false_eq_true, if_false]
    by_cases ho' : lastDot ss = true
    · rw [ho'] at hc'
      have hem : Path.is_empty v' = true := by simpa using hc'
      rw [is_empty_rel i1.rel] at hem
      have hv : v' = [] := by simpa using hem
      subst hv
      have he : E = [] := rinv_nil i1
      subst he
      rw [finalizeN_rinv i1 (by intro f r h; cases h)]
      simp
    · have hof : lastDot ss = false := by simpa using ho'
      rw [hof] at hX ⊢
      simp only [Bool.false_and, Bool.false_eq_true, if_false, List.append_nil] at hX ⊢
      exact finalizeN_rinv i1 hX

theorem symAppendView_rinv (v0 : Text) (L0 : List Text) (ss : List Text) (inv : RInv v0 L0)
    (hall : ∀ s ∈ ss, cSlash ∉ s ∧ PathText s) (hsk : symSkipsGo false L0 ss = false) :
    ∃ E2, RInv (symAppendView false false false v0 ss) E2 := by
  obtain ⟨i1, _⟩ := rinv_loop false false ss v0 false L0 inv hall hsk
  unfold symAppendView closeView
  split
  · exact ⟨_, rinv_push false false _ [] _ i1 (by simp) (by intro c hc; cases hc) (by decide) (by decide)⟩
  · exact ⟨_, i1⟩

/-- the tail of `mergedPath`, no authority, relative directory -/
theorem merged_tail_rel (sb v0 : Text) (hs : sb ≠ [] ∧ ∀ c ∈ sb, nCSQH c = true) (L0 : List Text)
    (inv0 : RInv v0 L0) (ss : List Text)
    (hall : ∀ s ∈ ss, cSlash ∉ s ∧ PathText s) (hsk : symSkipsGo false L0 ss = false)
    (hX : ∀ first rest, walkR L0 ss ++ (if lastDot ss && !(walkR L0 ss).isEmpty then [[]] else []) = first :: rest →
      first ≠ [] ∨ rest = []) :
    (((Ref.path_mut (recompose (snp sb v0))).symbolic_append ss).bind fun h =>
      h.normalize.bind fun h =>
        if (h.view == [cSlash, cDot, cSlash] || h.view == [cDot, cSlash]) = true then
          h.clear.bind fun h => some (Ref.path h.buffer)
        else some (Ref.path h.buffer)) =
    some (joinSlash (walkR L0 ss ++ (if lastDot ss && !(walkR L0 ss).isEmpty then [[]] else []))) := by
  obtain ⟨i0, f0, a0⟩ := handle_snp sb v0 hs inv0.pt (startsSS_isAbs inv0.rel)
  obtain ⟨h1, e1', i1, f1, a1⟩ := symbolic_append_view _ _ _ _ i0 ss
  rw [f0, a0, pre_ne'] at i1
  rw [e1']
  simp only [Option.bind_some]
  obtain ⟨h2, e2, i2, f2, a2⟩ := normalize_view _ _ _ _ i1
  rw [f1, f0, pre_ne'] at i2
  rw [e2]
  simp only [Option.bind_some, i2.view]
  have hfin := relative_view_rel v0 _ ss inv0 hall hsk hX
  unfold finalizeN at hfin
  simp only [] at hfin
  obtain ⟨E2, iE2⟩ := symAppendView_rinv v0 L0 ss inv0 hall hsk
  have hpt3 : PathText (normView false false (symAppendView false false false v0 ss)) :=
    pathText_normView _ _ _ iE2.pt
  -- the segments of the target have no `/`
  have hws : ∀ t ∈ walkR L0 ss ++ (if lastDot ss && !(walkR L0 ss).isEmpty then [[]] else []), cSlash ∉ t := by
    intro t ht
    rcases List.mem_append.mp ht with h1 | h1
    · obtain ⟨iw, _⟩ := rinv_loop false false ss v0 false L0 inv0 hall hsk
      exact rinv_noSlash iw t h1
    · split at h1
      · simp at h1; subst h1; simp
      · cases h1
  generalize normView false false (symAppendView false false false v0 ss) = v3 at hfin i2 hpt3
  generalize hW : walkR L0 ss ++ (if lastDot ss && !(walkR L0 ss).isEmpty then [[]] else []) = X at hfin hX hws
  have hrelW : isAbs (joinSlash X) = false := by
    cases X with
    | nil => rfl
    | cons first rest =>
      rcases hX first rest rfl with h | h
      · cases first with
        | nil => exact absurd rfl h
        | cons c r =>
          have hc : c ≠ cSlash := fun e => hws (c :: r) List.mem_cons_self (e ▸ List.mem_cons_self)
          obtain ⟨t, ht⟩ := joinSlash_head (c := c) (r := r) rest
          rw [ht]; simp [isAbs, hc]
      · subst h
        cases first with
        | nil => rfl
        | cons c r =>
          have hc : c ≠ cSlash := fun e => hws (c :: r) List.mem_cons_self (e ▸ List.mem_cons_self)
          simp [joinSlash, isAbs, hc]
  have hfinal_ok : ∀ h : PathMut, PInv h (sb ++ [cColon]) (joinSlash X) [] →
      PathText (joinSlash X) → Ref.path h.buffer = joinSlash X := by
    intro h i hpt
    rw [buffer_snp i]
    exact ref_path_recompose _ (wf_snp sb _ hs hpt (startsSS_isAbs hrelW))
  by_cases hc : (v3 == [cSlash, cDot, cSlash] || v3 == [cDot, cSlash]) = true
  · simp only [hc, if_true] at hfin ⊢
    obtain ⟨h3, e3, i3, _, _⟩ := clear_view _ _ _ _ i2
    rw [e3]
    simp only [Option.bind_some]
    rw [hfin] at i3
    have hptc : PathText (clearView v3) := by
      unfold clearView
      split
      · exact pathText_lit_slash
      · intro c hc; cases hc
    rw [hfin] at hptc
    rw [hfinal_ok h3 i3 hptc]
  · have hc' : (v3 == [cSlash, cDot, cSlash] || v3 == [cDot, cSlash]) = false := by simpa using hc
    simp only [hc', Bool.false_eq_true, if_false] at hfin ⊢
    rw [hfin] at i2 hpt3
    rw [hfinal_ok h2 i2 hpt3]

/-- **the merged path**, base without authority and with a relative or empty path -/
theorem mergedPath_relbase (PB : Spec.Parts) (wB : WF PB) (sb : Text)
    (hsb : PB.scheme = some sb) (hab : PB.authority = none) (hrel : isAbs PB.path = false) (ss : List Text)
    (hall : ∀ s ∈ ss, cSlash ∉ s ∧ PathText s)
    (hsk : symSkipsGo false (nsegsOf false (segs PB.path).dropLast) ss = false)
    (hX : ∀ first rest, walkR (nsegsOf false (segs PB.path).dropLast) ss ++
        (if lastDot ss && !(walkR (nsegsOf false (segs PB.path).dropLast) ss).isEmpty then [[]] else []) = first :: rest →
      first ≠ [] ∨ rest = []) :
    Ref.mergedPath (recompose PB) ss = some (joinSlash
      (walkR (nsegsOf false (segs PB.path).dropLast) ss ++
        (if lastDot ss && !(walkR (nsegsOf false (segs PB.path).dropLast) ss).isEmpty then [[]] else []))) := by
  have hs : sb ≠ [] ∧ ∀ c ∈ sb, nCSQH c = true := wB.scheme sb hsb
  have hBpt : PathText PB.path := pathText_of_wf _ wB
  unfold Ref.mergedPath
  rw [ref_scheme_full PB wB sb hsb, ref_authority_recompose PB wB, ref_path_recompose PB wB, hab]
  have hQ0 : Ref.from_scheme sb = recompose (snp sb []) := by
    rw [recompose_eq]; simp [Ref.from_scheme, snp, schemeText, authText, queryText, fragText]
  have wQ0 := wf_snp sb [] hs (by intro c hc; cases hc) rfl
  have e1 := set_authority_none_recompose _ wQ0
  have hQ1 : ({ snp sb [] with authority := none, path := pathNoAuth (snp sb []) } : Spec.Parts) = snp sb [] := by
    simp [snp, pathNoAuth]
  rw [hQ1] at e1
  rw [hQ0]
  simp only [Option.bind_eq_bind, e1, Option.bind_some, Option.isSome_none, Bool.false_and, Bool.false_eq_true,
    if_false]
  rw [set_path_recompose _ wQ0]
  obtain ⟨hpsegs, hprel, hppt⟩ := parent_segs_rel PB.path hrel
  have hpp := hppt hBpt
  have hpss := startsSS_isAbs hprel
  have hsp : setPathSpec (snp sb []) (Path.parent_or_empty PB.path) = Path.parent_or_empty PB.path := by
    simp [setPathSpec, snp, hpss]
  have hpe : ({ snp sb [] with path := setPathSpec (snp sb []) (Path.parent_or_empty PB.path) } : Spec.Parts)
      = snp sb (Path.parent_or_empty PB.path) := by rw [hsp]; rfl
  rw [hpe]
  simp only [Option.bind_some]
  obtain ⟨i0, f0, a0⟩ := handle_snp sb _ hs hpp hpss
  obtain ⟨h1, e1', i1, f1, a1⟩ := normalize_view _ _ _ _ i0
  rw [f0, pre_ne'] at i1
  rw [e1']
  simp only [Option.map_some, buffer_snp i1, Option.bind_some]
  have inv0 : RInv (normView false false (Path.parent_or_empty PB.path)) (nsegsOf false (segs PB.path).dropLast) := by
    have := rinv_normView false false _ hpp hprel
    unfold nsegs at this
    rwa [hprel, hpsegs] at this
  exact merged_tail_rel sb _ hs _ inv0 ss hall hsk hX

/-- **§5.2.2, last branch**, base without authority and with a relative or empty path, outside the
F15 class, where the RFC target path is relative -/
theorem resolve_relative_relbase (G : Grammar) (ok : Grammar.Ok G) (okp : Grammar.OkPath G) (base r : Text)
    (hb : Matches G.full base) (hr : Matches G.reference r)
    (hs : (split r).scheme = none) (ha : (split r).authority = none)
    (hne : (split r).path ≠ []) (hrl : isAbs (split r).path = false)
    (hab : (split base).authority = none) (hBrel : isAbs (split base).path = false)
    (hsk : symSkipsGo false (nsegsOf false (segs (split base).path).dropLast) (splitSlash (split r).path) = false)
    (hamb : isAbs (resolveSpec base r).path = false) :
    Ref.resolve r base = some (recompose (resolveSpec base r)) := by
  obtain ⟨vR, wR⟩ := split_valid G ok r hr
  obtain ⟨vB, wB⟩ := split_valid G ok base (Matches.altL hb)
  obtain ⟨PB, hsP, hP, hvB⟩ := (full_iff G base).mp hb
  have hspB : split base = PB := by rw [← hP]; exact Lemmas.split_recompose PB (wf_of_valid G ok PB hvB)
  obtain ⟨sb, hsb⟩ := Option.isSome_iff_exists.mp (hspB ▸ hsP)
  have hpe : (split r).path.isEmpty = false := by
    cases hpp : (split r).path with
    | nil => exact absurd hpp hne
    | cons c t => rfl
  -- the RFC target
  have hrd := removeDots_merge_rel (split base).path (split r).path hBrel hne hrl hsk
  have hT : (resolveSpec base r).path = removeDots (merge false (split base).path (split r).path) := by
    simp [resolveSpec, transform, hs, ha, hpe, hrl, hab]
  rw [hT, hrd] at hamb
  have hX : ∀ first rest, walkR (nsegsOf false (segs (split base).path).dropLast) (splitSlash (split r).path) ++
        (if lastDot (splitSlash (split r).path) &&
          !(walkR (nsegsOf false (segs (split base).path).dropLast) (splitSlash (split r).path)).isEmpty then [[]] else [])
        = first :: rest → first ≠ [] ∨ rest = [] := by
    intro first rest hfr
    rw [hfr] at hamb
    by_cases hf : first = []
    · right
      subst hf
      cases rest with
      | nil => rfl
      | cons t ts => simp [joinSlash, isAbs] at hamb
    · exact .inl hf
  unfold Ref.resolve resolveSpec transform
  have hrp := reference_parts_recompose (split r) wR
  rw [Lemmas.recompose_split] at hrp
  simp only [hrp, rangesOf, hs, ha, Option.map_none, Option.isSome_none, Bool.false_eq_true, if_false]
  have hsch : Ref.scheme base = sb := by
    have := ref_scheme_full (split base) wB sb hsb
    rwa [Lemmas.recompose_split] at this
  rw [hsch]
  have e1 := set_scheme_some_recompose (split r) wR sb
  rw [Lemmas.recompose_split] at e1
  simp only [Option.bind_eq_bind, e1, Option.bind_some]
  have hsbv : Matches Rfc3986.scheme sb := vB.scheme sb hsb
  have v1 := valid_set_scheme_some G ok okp (split r) vR sb hsbv
  have w1 := wf_of_valid G ok _ v1
  have hpath1 : Ref.path (recompose { split r with scheme := some sb }) = (split r).path :=
    ref_path_recompose _ w1
  have hnab : Path.is_absolute (split r).path = false := by rw [is_absolute_eq]; exact hrl
  have hrel : (Path.is_relative (split r).path && Path.is_empty (split r).path) = false := by
    cases hpp : (split r).path with
    | nil => exact absurd hpp hne
    | cons c t =>
      rw [hpp] at hrl
      have hc : (c == cSlash) = false := by simpa [isAbs] using hrl
      have : c ≠ cSlash := by simpa using hc
      simp [Path.is_empty, this]
  simp only [hpath1, hrel, Bool.false_eq_true, if_false, hnab]
  have hauthB : Ref.authority base = none := by
    have := ref_authority_recompose (split base) wB
    rw [Lemmas.recompose_split] at this
    rw [this, hab]
  rw [hauthB]
  have e2 := set_authority_none_recompose _ w1
  have hpw : pathNoAuth { split r with scheme := some sb } = (split r).path := by
    simp [pathNoAuth, ha]
  rw [hpw] at e2
  have hsame : ({ split r with scheme := some sb, authority := none, path := (split r).path } : Spec.Parts)
      = { split r with scheme := some sb } := by
    cases hsr : split r with
    | mk sc au pa qu fr =>
      rw [hsr] at ha
      simp at ha
      simp [ha]
  rw [show ({ split r with scheme := some sb, authority := none, path := (split r).path } : Spec.Parts)
      = { split r with scheme := some sb } from hsame] at e2
  simp only [e2, Option.bind_some, hpath1]
  have hRpt : PathText (split r).path := pathText_of_wf _ wR
  rw [segmentList_eq_segs _ hRpt]
  have hsegs : segs (split r).path = splitSlash (split r).path := segs_rel hrl hne
  rw [hsegs]
  have hall : ∀ s ∈ splitSlash (split r).path, cSlash ∉ s ∧ PathText s := by
    intro s hs
    refine ⟨splitSlash_no_slash _ s hs, fun c hc => hRpt c (mem_of_mem_splitSlash' _ s hs c hc)⟩
  have hm := mergedPath_relbase (split base) wB sb hsb hab hBrel _ hall hsk hX
  rw [Lemmas.recompose_split] at hm
  rw [hm]
  simp only [Option.bind_some]
  rw [set_path_recompose _ w1]
  simp only [hab, Option.isSome_none, hpe, Bool.false_eq_true, if_false, hrl, hrd, hsb, Bool.false_and]
  have hsps : ∀ T : Text, isAbs T = false →
      setPathSpec { split r with scheme := some sb } T = T := by
    intro T hx
    simp [setPathSpec, ha, startsSS_isAbs hx]
  rw [hsps _ hamb]
  simp [ha]

/-- outside the F15 class `symbolic_append` skips nothing (base without authority, relative path) -/
theorem noSkip_of_not_f15_relbase (base r : Text) (hBrel : isAbs (split base).path = false)
    (hs : (split r).scheme = none) (ha : (split r).authority = none)
    (hne : (split r).path ≠ []) (hrl : isAbs (split r).path = false)
    (hab : (split base).authority = none) (hf : f15 base r = false) :
    symSkipsGo false (nsegsOf false (segs (split base).path).dropLast) (splitSlash (split r).path) = false := by
  unfold f15 at hf
  have hpe : (split r).path.isEmpty = false := by
    cases hpp : (split r).path with
    | nil => exact absurd hpp hne
    | cons c t => rfl
  have hsegs : segs (split r).path = splitSlash (split r).path := segs_rel hrl hne
  simp only [hs, ha, hab, hpe, hrl, hsegs, hBrel, Option.isNone_none, Option.isSome_none, Bool.not_false,
    Bool.true_and, Bool.or_false, Bool.and_true, Bool.false_and, Bool.false_eq_true, if_false] at hf
  rw [nsegs_parentOrEmpty_rel _ hBrel] at hf
  exact hf

end IrefVerif.Lemmas
