import IrefVerif.Model.Cmp

/-!
# `Ord` on decoded octets is a total order compatible with equality

`bytesCmp` is the lexicographic order that `[u8]`'s derived `Ord` and `Iterator::cmp` on the
decoded bytes implement.
-/

namespace IrefVerif.Lemmas
open IrefVerif.Spec IrefVerif.Model.Cmp

theorem ordNat_eq_iff (a b : Nat) : ordNat a b = .eq ↔ a = b := by
  unfold ordNat; split
  · constructor <;> intro h
    · cases h
    · omega
  · split
    · rename_i h; constructor
      · intro _; simpa using h
      · intro _; rfl
    · rename_i h1 h2; constructor
      · intro h; cases h
      · intro h; subst h; simp at h2

theorem ordNat_lt_iff (a b : Nat) : ordNat a b = .lt ↔ a < b := by
  unfold ordNat; split
  · simp [*]
  · split <;> simp [*]

theorem ordNat_gt_iff (a b : Nat) : ordNat a b = .gt ↔ b < a := by
  unfold ordNat; split
  · rename_i h; constructor
    · intro h'; cases h'
    · intro h'; omega
  · split
    · rename_i h1 h2
      have : a = b := by simpa using h2
      constructor
      · intro h'; cases h'
      · intro h'; omega
    · rename_i h1 h2
      have : a ≠ b := by simpa using h2
      constructor
      · intro _; omega
      · intro _; rfl

theorem bytesCmp_eq_iff (a b : Text) : bytesCmp a b = .eq ↔ a = b := by
  induction a generalizing b with
  | nil => cases b <;> simp [bytesCmp]
  | cons x a ih =>
    cases b with
    | nil => simp [bytesCmp]
    | cons y b =>
      simp only [bytesCmp, List.cons.injEq]
      cases h : ordNat x y with
      | eq => simp only [ih]; exact ⟨fun hh => ⟨(ordNat_eq_iff x y).mp h, hh⟩, fun hh => hh.2⟩
      | lt =>
        have := (ordNat_lt_iff x y).mp h
        constructor
        · intro hh; cases hh
        · intro hh; omega
      | gt =>
        have := (ordNat_gt_iff x y).mp h
        constructor
        · intro hh; cases hh
        · intro hh; omega

/-- antisymmetry: swapping the arguments swaps the outcome -/
theorem bytesCmp_swap (a b : Text) : bytesCmp b a = (bytesCmp a b).swap := by
  induction a generalizing b with
  | nil => cases b <;> simp [bytesCmp, Ordering.swap]
  | cons x a ih =>
    cases b with
    | nil => simp [bytesCmp, Ordering.swap]
    | cons y b =>
      simp only [bytesCmp]
      cases h : ordNat x y with
      | eq =>
        have hxy := (ordNat_eq_iff x y).mp h
        have : ordNat y x = .eq := (ordNat_eq_iff y x).mpr hxy.symm
        simp [this, ih]
      | lt =>
        have hxy := (ordNat_lt_iff x y).mp h
        have : ordNat y x = .gt := (ordNat_gt_iff y x).mpr hxy
        simp [this, Ordering.swap]
      | gt =>
        have hxy := (ordNat_gt_iff x y).mp h
        have : ordNat y x = .lt := (ordNat_lt_iff y x).mpr hxy
        simp [this, Ordering.swap]

/-- transitivity of `<` -/
theorem bytesCmp_lt_trans (a b c : Text) (h1 : bytesCmp a b = .lt) (h2 : bytesCmp b c = .lt) :
    bytesCmp a c = .lt := by
  induction a generalizing b c with
  | nil =>
    cases b with
    | nil => simp [bytesCmp] at h1
    | cons y b =>
      cases c with
      | nil => simp [bytesCmp] at h2
      | cons z c => simp [bytesCmp]
  | cons x a ih =>
    cases b with
    | nil => simp [bytesCmp] at h1
    | cons y b =>
      cases c with
      | nil => simp [bytesCmp] at h2
      | cons z c =>
        simp only [bytesCmp] at h1 h2 ⊢
        cases hxy : ordNat x y with
        | gt => simp [hxy] at h1
        | lt =>
          have l1 := (ordNat_lt_iff x y).mp hxy
          cases hyz : ordNat y z with
          | gt => simp [hyz] at h2
          | lt =>
            have l2 := (ordNat_lt_iff y z).mp hyz
            have : ordNat x z = .lt := (ordNat_lt_iff x z).mpr (by omega)
            simp [this]
          | eq =>
            have l2 := (ordNat_eq_iff y z).mp hyz
            have : ordNat x z = .lt := (ordNat_lt_iff x z).mpr (by omega)
            simp [this]
        | eq =>
          have l1 := (ordNat_eq_iff x y).mp hxy
          subst l1
          simp only [hxy] at h1
          cases hyz : ordNat x z with
          | gt => simp [hyz] at h2
          | lt => simp
          | eq =>
            simp only [hyz] at h2
            exact ih b c h1 h2

end IrefVerif.Lemmas
