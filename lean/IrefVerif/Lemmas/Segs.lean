import IrefVerif.Spec.Path

/-! `/`-splitting and appending a segment. -/

namespace IrefVerif.Lemmas
open IrefVerif.Spec

theorem splitSlash_noslash (s : Text) (hs : cSlash ∉ s) : splitSlash s = [s] := by
  induction s with
  | nil => rfl
  | cons c s ih =>
    have hc : (c == cSlash) = false := by
      have : c ≠ cSlash := fun e => hs (e ▸ List.mem_cons_self)
      simpa using this
    have := ih (fun e => hs (List.mem_cons_of_mem _ e))
    simp [splitSlash, hc, this]

/-- appending `/` and a slash-free segment appends that segment to the split -/
theorem splitSlash_append (r s : Text) (hs : cSlash ∉ s) :
    splitSlash (r ++ cSlash :: s) = splitSlash r ++ [s] := by
  induction r with
  | nil => simp [splitSlash, splitSlash_noslash s hs]
  | cons c r ih =>
    simp only [List.cons_append, splitSlash]
    by_cases hc : (c == cSlash) = true
    · simp [hc, ih]
    · have hc' : (c == cSlash) = false := by simpa using hc
      simp only [hc', Bool.false_eq_true, if_false, ih]
      cases hsp : splitSlash r with
      | nil => exact absurd hsp (splitSlash_ne_nil r)
      | cons a as => simp

/-- **push on a non-empty path appends exactly that segment** (text level) -/
theorem segs_push (p s : Text) (hp : stripRoot p ≠ []) (hs : cSlash ∉ s) :
    segs (p ++ cSlash :: s) = segs p ++ [s] ∧ isAbs (p ++ cSlash :: s) = isAbs p := by
  cases p with
  | nil => simp [stripRoot] at hp
  | cons c l =>
    constructor
    · unfold segs
      by_cases hc : (c == cSlash) = true
      · have hl : l ≠ [] := by simpa [stripRoot, hc] using hp
        cases l with
        | nil => exact absurd rfl hl
        | cons d l' =>
          simp only [List.cons_append, stripRoot, hc, if_true]
          exact splitSlash_append (d :: l') s hs
      · have hc' : (c == cSlash) = false := by simpa using hc
        simp only [List.cons_append, stripRoot, hc', Bool.false_eq_true, if_false]
        have := splitSlash_append (c :: l) s hs
        simpa using this
    · simp [isAbs]

/-- pushing onto an empty path: `` becomes `s`, `/` becomes `/s` (when `s` needs no shield) -/
theorem segs_push_empty (abs : Bool) (s : Text) (hs : cSlash ∉ s) (hne : s ≠ []) :
    segs ((if abs then [cSlash] else []) ++ s) = [s] := by
  cases abs
  · simp only [Bool.false_eq_true, if_false, List.nil_append, segs]
    cases s with
    | nil => exact absurd rfl hne
    | cons c s' =>
      have hc : (c == cSlash) = false := by
        have : c ≠ cSlash := fun e => hs (e ▸ List.mem_cons_self)
        simpa using this
      simp only [stripRoot, hc, Bool.false_eq_true, if_false]
      exact splitSlash_noslash _ hs
  · simp only [if_true, List.singleton_append, segs, stripRoot, beq_self_eq_true]
    cases s with
    | nil => exact absurd rfl hne
    | cons c s' => exact splitSlash_noslash _ hs

end IrefVerif.Lemmas
