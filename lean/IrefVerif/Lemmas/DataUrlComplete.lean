import IrefVerif.Lemmas.DataUrl

/-!
# `DataUrlDelimiters::parse` is complete, and base64 decoding inverts encoding

* `parse_complete`: every text `data:` media-type [`;base64`] `,` data whose media type consists of
  media-type characters is accepted by the scanner, with exactly the offsets of that shape (the
  converse of `parse_shape`).
* `b64Decode_encode`: the RFC 4648 decoder specified in `Model/DataUrl.lean` is a left inverse of
  the RFC 4648 encoder on every octet string — it is complete (every octet string is the
  decoding of some data part) and the encoder's canonical output is never rejected.
-/

namespace IrefVerif.Lemmas
open IrefVerif.Spec IrefVerif.Model.DataUrl

theorem parseGo_complete (suffix : Text) (b : Bool) (data : Text) :
    ∀ (mt pre : Text), (∀ c ∈ mt, isMediaTypeChar c = true) →
      suffix = pre ++ mt ++ (if b then semiBase64 else []) ++ cComma :: data →
      parseGo suffix pre.length (mt ++ (if b then semiBase64 else []) ++ cComma :: data) =
        some { media_type_end := 5 + pre.length + mt.length, base_64 := b,
               data_start := 5 + pre.length + mt.length + (if b then 7 else 0) + 1 } := by
  intro mt
  induction mt with
  | nil =>
    intro pre _ hs
    cases b with
    | false => simp [parseGo]
    | true =>
      have hs' : suffix = (pre ++ [0x3B]) ++ (base64Comma ++ data) := by
        rw [hs]; simp [semiBase64, base64Comma, cComma]
      have hd : suffix.drop (pre.length + 1) = base64Comma ++ data := by
        rw [hs']; exact List.drop_left' (by simp)
      have ht : (suffix.drop (pre.length + 1)).take 7 = base64Comma := by
        rw [hd]; exact List.take_left' (by simp [base64Comma])
      have hl : pre.length + 8 ≤ suffix.length := by
        rw [hs']; simp [base64Comma] <;> omega
      simp only [List.nil_append, semiBase64, if_true, List.cons_append, parseGo]
      simp [cComma, cSemi, ht, hl] <;> omega
  | cons c mt ih =>
    intro pre hmt hs
    have hc := hmt c (by simp)
    obtain ⟨h1, h2⟩ := mt_not_delim hc
    have := ih (pre ++ [c]) (fun x hx => hmt x (by simp [hx])) (by rw [hs]; simp)
    simp only [List.cons_append, parseGo]
    simp only [beq_iff_eq, h1, h2, if_false, hc, if_true]
    simp only [List.length_append, List.length_cons, List.length_nil] at this
    rw [this]
    simp only [Option.some.injEq, Delimiters.mk.injEq, List.length_cons, true_and]
    omega

/-- **completeness of the scanner**: every text of the data-URL shape is accepted, with the
offsets of that shape -/
theorem parse_complete (mt data : Text) (b : Bool) (hmt : ∀ c ∈ mt, isMediaTypeChar c = true) :
    parse (dataPrefix ++ mt ++ (if b then semiBase64 else []) ++ cComma :: data) =
      some { media_type_end := 5 + mt.length, base_64 := b,
             data_start := 5 + mt.length + (if b then 7 else 0) + 1 } := by
  have hp : dataPrefix.isPrefixOf (dataPrefix ++ mt ++ (if b then semiBase64 else []) ++ cComma :: data) = true := by
    simp [dataPrefix]
  have hd : (dataPrefix ++ mt ++ (if b then semiBase64 else []) ++ cComma :: data).drop 5 =
      mt ++ (if b then semiBase64 else []) ++ cComma :: data := by
    simp [dataPrefix]
  unfold parse
  rw [if_pos hp, hd]
  have := parseGo_complete (mt ++ (if b then semiBase64 else []) ++ cComma :: data) b data mt [] hmt (by simp)
  simpa using this

/-! ## RFC 4648 encoder and the round trip -/

def b64Char (s : Nat) : Nat :=
  if s < 26 then s + 65 else if s < 52 then s + 71 else if s < 62 then s - 4
  else if s = 62 then 0x2B else 0x2F

/-- RFC 4648 §4 encoding with padding -/
def b64Encode : List Nat → Text
  | [] => []
  | [x] => [b64Char (x / 4), b64Char ((x % 4) * 16), cPad, cPad]
  | [x, y] => [b64Char (x / 4), b64Char ((x % 4) * 16 + y / 16), b64Char ((y % 16) * 4), cPad]
  | x :: y :: z :: rest =>
    b64Char (x / 4) :: b64Char ((x % 4) * 16 + y / 16) :: b64Char ((y % 16) * 4 + z / 64) ::
      b64Char (z % 64) :: b64Encode rest

theorem b64Val_char (s : Nat) (h : s < 64) : b64Val (b64Char s) = some s := by
  unfold b64Char
  split
  · rename_i h1
    have a1 : 65 ≤ s + 65 ∧ s + 65 ≤ 90 := by omega
    simp only [b64Val, Bool.and_eq_true, decide_eq_true_eq]
    rw [if_pos a1]
    exact congrArg some (by omega)
  · split
    · rename_i h1 h2
      have a1 : ¬ (65 ≤ s + 71 ∧ s + 71 ≤ 90) := by omega
      have a2 : 97 ≤ s + 71 ∧ s + 71 ≤ 122 := by omega
      simp only [b64Val, Bool.and_eq_true, decide_eq_true_eq]
      rw [if_neg a1, if_pos a2]
      exact congrArg some (by omega)
    · split
      · rename_i h1 h2 h3
        have a1 : ¬ (65 ≤ s - 4 ∧ s - 4 ≤ 90) := by omega
        have a2 : ¬ (97 ≤ s - 4 ∧ s - 4 ≤ 122) := by omega
        have a3 : 48 ≤ s - 4 ∧ s - 4 ≤ 57 := by omega
        simp only [b64Val, Bool.and_eq_true, decide_eq_true_eq]
        rw [if_neg a1, if_neg a2, if_pos a3]
        exact congrArg some (by omega)
      · split
        · subst_vars; simp [b64Val]
        · have : s = 63 := by omega
          subst this; simp [b64Val]

theorem b64Char_ne_pad (s : Nat) : (b64Char s == cPad) = false := by
  unfold b64Char cPad
  repeat' split
  all_goals simp
  all_goals omega

theorem b64Encode_ne_nil (x : Nat) (l : List Nat) : b64Encode (x :: l) ≠ [] := by
  cases l with
  | nil => simp [b64Encode]
  | cons y l => cases l <;> simp [b64Encode]

theorem b64Decode_quad (a b c d : Nat) (rest : Text) (x y z w : Nat) (r : Text) (h : rest ≠ [])
    (ha : b64Val a = some x) (hb : b64Val b = some y) (hc : b64Val c = some z) (hd : b64Val d = some w)
    (hr : b64Decode rest = some r) :
    b64Decode (a :: b :: c :: d :: rest) =
      some ((x * 4 + y / 16) :: ((y % 16) * 16 + z / 4) :: ((z % 4) * 64 + w) :: r) := by
  cases rest with
  | nil => exact absurd rfl h
  | cons q qs =>
    rw [b64Decode]
    · simp only [ha, hb, hc, hd, hr]
    · intro e; cases e

/-- **decode ∘ encode = id** on octet strings -/
theorem b64Decode_encode : ∀ (l : List Nat), (∀ b ∈ l, b < 256) → b64Decode (b64Encode l) = some l
  | [], _ => by simp [b64Encode, b64Decode]
  | [x], h => by
    have hx := h x (by simp)
    have v1 := b64Val_char (x / 4) (by omega)
    have v2 := b64Val_char (x % 4 * 16) (by omega)
    simp only [b64Encode, b64Decode, v1, v2]
    have e1 : x % 4 * 16 % 16 = 0 := by omega
    have e2 : x / 4 * 4 + x % 4 * 16 / 16 = x := by omega
    simp [e1, e2] <;> omega
  | [x, y], h => by
    have hx := h x (by simp)
    have hy := h y (by simp)
    have v1 := b64Val_char (x / 4) (by omega)
    have v2 := b64Val_char (x % 4 * 16 + y / 16) (by omega)
    have v3 := b64Val_char (y % 16 * 4) (by omega)
    simp only [b64Encode, b64Decode, v1, v2, v3, b64Char_ne_pad]
    have e1 : y % 16 * 4 % 4 = 0 := by omega
    have e2 : x / 4 * 4 + (x % 4 * 16 + y / 16) / 16 = x := by omega
    have e3 : (x % 4 * 16 + y / 16) % 16 * 16 + y % 16 * 4 / 4 = y := by omega
    simp [e1, e2, e3] <;> omega
  | x :: y :: z :: rest, h => by
    have hx := h x (by simp)
    have hy := h y (by simp)
    have hz := h z (by simp)
    have v1 := b64Val_char (x / 4) (by omega)
    have v2 := b64Val_char (x % 4 * 16 + y / 16) (by omega)
    have v3 := b64Val_char (y % 16 * 4 + z / 64) (by omega)
    have v4 := b64Val_char (z % 64) (by omega)
    have e2 : x / 4 * 4 + (x % 4 * 16 + y / 16) / 16 = x := by omega
    have e3 : (x % 4 * 16 + y / 16) % 16 * 16 + (y % 16 * 4 + z / 64) / 4 = y := by omega
    have e4 : (y % 16 * 4 + z / 64) % 4 * 64 + z % 64 = z := by omega
    cases rest with
    | nil =>
      simp only [b64Encode, b64Decode, v1, v2, v3, v4, b64Char_ne_pad]
      simp [e2, e3, e4] <;> omega
    | cons r rs =>
      have ih := b64Decode_encode (r :: rs) (fun b hb => h b (by simp [hb]))
      rw [b64Encode, b64Decode_quad _ _ _ _ _ _ _ _ _ _ (b64Encode_ne_nil r rs) v1 v2 v3 v4 ih]
      simp [e2, e3, e4] <;> omega

end IrefVerif.Lemmas
