import IrefVerif.Lemmas.ResolveComponents
import IrefVerif.Lemmas.CopyNorm

/-!
# What `remove_dot_segments` writes, exactly — and that it renders the RFC's segment list

`rds_exact`: on a valid reference the model of `remove_dot_segments` returns the recomposition of
the same components with the path `rdsView …`, which is valid and is what the text decomposes to.
`rdsView_long` then says: whenever two or more segments remain, that path realises the §5.2.4
target list — literally, or behind the `.` shield where the RFC's own text would be misread.
-/

set_option linter.unusedSimpArgs false

namespace IrefVerif.Lemmas
open IrefVerif IrefVerif.RE IrefVerif.Spec IrefVerif.Model IrefVerif.Props

section
variable (G : Grammar) (ok : Grammar.Ok G) (okp : Grammar.OkPath G)
include ok okp

theorem good_rdsView (A atStart : Bool) (hctx : atStart = true → A = false) (p : Text)
    (hg : GoodPath G A atStart p) : GoodPath G A atStart (rdsView A A atStart p) := by
  unfold rdsView
  simp only []
  split
  · exact good_push G ok okp A atStart hctx _ [] (good_norm G ok okp A atStart hctx p hg) okp.seg_nil
  · split
    · exact good_clear G ok okp A atStart _
    · exact good_norm G ok okp A atStart hctx p hg

/-- **`remove_dot_segments`, exactly** -/
theorem rds_exact (w : Text) (hw : Matches G.reference w) :
    let Q : Spec.Parts := { split w with path := (rdsView (split w).authority.isSome (split w).authority.isSome
      ((split w).scheme.isNone && (split w).authority.isNone) (split w).path) }
    Ref.remove_dot_segments w = some (recompose Q) ∧ ValidParts G Q ∧ split (recompose Q) = Q := by
  intro Q
  obtain ⟨hv, wf⟩ := split_valid G ok w hw
  obtain ⟨fa, e, hfa⟩ := remove_dot_segments_view G ok w hw
  have hfa' : fa = (split w).authority.isSome := by rw [hfa]; exact follows_authority_eq G ok w hw
  have hst : ((schemeText (split w).scheme ++ authText (split w).authority).length == 0)
      = ((split w).scheme.isNone && (split w).authority.isNone) := by
    cases (split w).scheme <;> cases (split w).authority <;> simp [schemeText, authText]
  rw [hfa', hst] at e
  have hctx : ((split w).scheme.isNone && (split w).authority.isNone) = true → (split w).authority.isSome = false := by
    intro hc
    simp only [Bool.and_eq_true, Option.isNone_iff_eq_none] at hc
    simp [hc.2]
  have hg := good_rdsView G ok okp _ _ hctx _ (good_of_valid G ok okp (split w) hv)
  have hvQ := valid_of_good G ok okp (split w) hv _ hg
  exact ⟨e, hvQ, Lemmas.split_recompose _ (wf_of_valid G ok _ hvQ)⟩

/-- a reference with a scheme: the result has the reference's components and a path that renders
the RFC's segment list, whenever two or more segments remain -/
theorem resolve_scheme_rendering (base r s : Text) (hr : Matches G.reference r)
    (hs : (split r).scheme = some s) (hlen : 2 ≤ (nsegs (split r).path).length) :
    ∃ t, Ref.resolve r base = some t ∧ Matches G.reference t ∧
      split t = { split r with path := (split t).path } ∧
      realises (split t).path (normTarget (split r).path) = true ∧
      isAbs (split t).path = isAbs (split r).path := by
  obtain ⟨vR, wR⟩ := split_valid G ok r hr
  obtain ⟨e, vQ, sQ⟩ := rds_exact G ok okp r hr
  have hrp := reference_parts_recompose (split r) wR
  rw [Lemmas.recompose_split] at hrp
  unfold Ref.resolve
  simp only [hrp, rangesOf, hs, Option.map_some, Option.isSome_some, if_true]
  refine ⟨_, e, (reference_iff G _).mpr ⟨_, rfl, vQ⟩, ?_, ?_⟩
  · rw [sQ]
    simp [hs]
  · rw [sQ]
    exact rdsView_long _ _ _ _ (pathText_of_wf _ wR) hlen

/-- an absolute-path reference (no scheme, no authority), any base: the result has the base's scheme
and authority, the reference's query and fragment, and a path that renders the RFC's segment list,
whenever two or more segments remain -/
theorem resolve_absolute_rendering (base r : Text) (hb : Matches G.full base) (hr : Matches G.reference r)
    (hs : (split r).scheme = none) (ha : (split r).authority = none) (habs : isAbs (split r).path = true)
    (hlen : 2 ≤ (nsegs (split r).path).length) :
    ∃ t, Ref.resolve r base = some t ∧ Matches G.reference t ∧
      SameFrame (split t) (resolveSpec base r) ∧
      realises (split t).path (normTarget (split r).path) = true ∧ isAbs (split t).path = true := by
  have hbF : FullV G base := (C02.full_iff_scheme G ok base).mp hb
  obtain ⟨vB, wB⟩ := split_valid G ok base hbF.1
  obtain ⟨vR, wR⟩ := split_valid G ok r hr
  obtain ⟨sb, hsb⟩ := Option.isSome_iff_exists.mp hbF.2
  have hsch : Ref.scheme base = sb := by
    have := ref_scheme_full (split base) wB sb hsb
    rwa [Lemmas.recompose_split] at this
  have hauth : Ref.authority base = (split base).authority := by
    have := ref_authority_recompose (split base) wB
    rwa [Lemmas.recompose_split] at this
  have hrp := reference_parts_recompose (split r) wR
  rw [Lemmas.recompose_split] at hrp
  have hne : (split r).path ≠ [] := by intro e; rw [e] at habs; simp [isAbs] at habs
  have hpe : (split r).path.isEmpty = false := by
    cases hpp : (split r).path with
    | nil => exact absurd hpp hne
    | cons c t => rfl
  unfold Ref.resolve
  simp only [hrp, rangesOf, hs, ha, Option.map_none, Option.isSome_none, Bool.false_eq_true, if_false, hsch, hauth]
  obtain ⟨b1, e1, v1, s1⟩ := setter_split G ok okp r hr (.scheme (some sb)) (by
    intro s hss; simp only [Option.some.injEq] at hss; subst hss; exact vB.scheme sb hsb)
  simp only [C04.setStep] at e1
  simp only [C04.applyOp] at s1
  simp only [Option.bind_eq_bind, e1, Option.bind_some]
  have hpath1 : Ref.path b1 = (split r).path := by
    obtain ⟨_, w1⟩ := split_valid G ok b1 v1
    have := ref_path_recompose (split b1) w1
    rw [Lemmas.recompose_split] at this
    rw [this, s1]
  have hrel : (Path.is_relative (split r).path && Path.is_empty (split r).path) = false := by
    simp [Path.is_relative, is_absolute_eq, habs]
  have habsM : Path.is_absolute (split r).path = true := by rw [is_absolute_eq]; exact habs
  simp only [hpath1, hrel, Bool.false_eq_true, if_false, habsM, if_true]
  obtain ⟨b2, e2, v2, s2⟩ := setter_split G ok okp b1 v1 (.authority (split base).authority) vB.authority
  simp only [C04.setStep] at e2
  simp only [e2, Option.bind_some]
  -- the decomposition of `b2`
  have hb2 : split b2 = { split r with scheme := some sb, authority := (split base).authority } := by
    rw [s2, s1]
    cases hba : (split base).authority with
    | some a => simp [C04.applyOp, pathWithAuth, ha, habs]
    | none => simp [C04.applyOp, pathNoAuth, ha]
  obtain ⟨e, vQ, sQ⟩ := rds_exact G ok okp b2 v2
  refine ⟨_, e, (reference_iff G _).mpr ⟨_, rfl, vQ⟩, ?_, ?_⟩
  · rw [sQ, hb2]
    simp only [resolveSpec, transform, hs, ha, hpe, Bool.false_eq_true, if_false, habs, if_true]
    exact ⟨hsb.symm, rfl, rfl, rfl⟩
  · rw [sQ]
    simp only [hb2]
    have := rdsView_long (split base).authority.isSome (split base).authority.isSome
      ((some sb : Option Text).isNone && (split base).authority.isNone) (split r).path (pathText_of_wf _ wR) hlen
    rw [habs] at this
    exact this

end

end IrefVerif.Lemmas
