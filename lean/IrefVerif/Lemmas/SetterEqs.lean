import IrefVerif.Lemmas.Accessors

/-!
# The model of the scheme / authority / path setters computes the specified recomposition

With `Setters.lean` (query, fragment) this covers all five component setters of
`RiRefBufImpl`: on the text of a well-formed component list `P`, the model of each setter
(scan + `Vec` splice, including the disambiguation branches) returns `recompose` of `P` with the
targeted component replaced and the path put behind exactly the documented shield:

* removing the scheme exposes a first segment with `:` → `./` prefix;
* adding an authority in front of a relative non-empty path → `/` prefix;
* removing the authority in front of a path starting with `//` → `/.` prefix;
* `set_path`: the same three rules for the new path.
-/

set_option linter.unusedSimpArgs false

namespace IrefVerif.Lemmas
open IrefVerif IrefVerif.Spec IrefVerif.Model IrefVerif.Model.Parse

def restS (P : Spec.Parts) : Text :=
  authText P.authority ++ P.path ++ queryText P.query ++ fragText P.fragment

theorem recompose_S (P : Spec.Parts) : recompose P = schemeText P.scheme ++ restS P := by
  rw [recompose_eq]; simp [restS, List.append_assoc]

theorem fsc_eq (l : Text) : first_segment_contains_colon l = fsc l := by
  induction l with
  | nil => rfl
  | cons c l ih => simp only [first_segment_contains_colon, fsc, ih]

/-- a well-formed text does not begin with `:` -/
theorem wf_head (P : Spec.Parts) (hwf : WF P) : (recompose P).head? ≠ some cColon := by
  rw [recompose_eq]
  obtain ⟨sch, au, pa, qu, fr⟩ := P
  cases sch with
  | some s =>
    obtain ⟨hne, hs⟩ := hwf.scheme s rfl
    cases s with
    | nil => exact absurd rfl hne
    | cons c s =>
      have := hs c List.mem_cons_self
      simp only [schemeText, List.cons_append, List.append_assoc, List.head?_cons, ne_eq, Option.some.injEq]
      intro hc; subst hc; simp [nCSQH] at this
  | none =>
    cases au with
    | some a => simp [schemeText, authText, cSlash, cColon]
    | none =>
      have hfs := hwf.noColon rfl rfl
      simp only [schemeText, authText, List.nil_append]
      cases pa with
      | nil =>
        cases qu with
        | some q => simp [queryText, cQuest, cColon]
        | none =>
          cases fr with
          | some f => simp [queryText, fragText, cHash, cColon]
          | none => simp [queryText, fragText]
      | cons c pa =>
        simp only [List.cons_append, List.head?_cons, ne_eq, Option.some.injEq]
        intro hc; subst hc
        simp [fsc] at hfs

/-- the text accessors on a well-formed text return the components -/
theorem modelRefParts_recompose (P : Spec.Parts) (wf : WF P) : modelRefParts (recompose P) = P := by
  rw [modelRefParts_eq_split _ (wf_head P wf), split_recompose P wf]

theorem ref_authority_recompose (P : Spec.Parts) (wf : WF P) : Ref.authority (recompose P) = P.authority := by
  unfold Ref.authority
  rw [find_authority_eq]
  have := congrArg Spec.Parts.authority (modelRefParts_recompose P wf)
  simpa [modelRefParts, sliceO] using this

theorem ref_path_recompose (P : Spec.Parts) (wf : WF P) : Ref.path (recompose P) = P.path := by
  unfold Ref.path
  rw [find_path_eq]
  have := congrArg Spec.Parts.path (modelRefParts_recompose P wf)
  simpa [modelRefParts] using this

/-! ## scheme -/

theorem set_scheme_some_recompose (P : Spec.Parts) (wf : WF P) (s' : Text) :
    Ref.set_scheme (recompose P) (some s') = some (recompose { P with scheme := some s' }) := by
  unfold Ref.set_scheme
  simp only [find_scheme_recompose P wf]
  rw [recompose_S, recompose_S]
  simp only [show restS { P with scheme := some s' } = restS P from rfl]
  cases hs : P.scheme with
  | some s =>
    simp only [Option.map_some, splice, schemeText]
    have hle : 0 ≤ s.length ∧ s.length ≤ (s ++ [cColon] ++ restS P).length := by simp
    simp only [hle, and_self, if_true, List.take_zero, List.nil_append, Option.some.injEq]
    have : (s ++ [cColon] ++ restS P).drop s.length = [cColon] ++ restS P := by
      rw [List.append_assoc, List.drop_left]
    rw [this]; simp
  | none =>
    simp only [Option.map_none, splice, schemeText, List.nil_append]
    simp

/-- the path left behind when the scheme is removed -/
def pathNoScheme (P : Spec.Parts) : Text :=
  if P.authority.isNone && fsc P.path then [cDot, cSlash] ++ P.path else P.path

theorem set_scheme_none_recompose (P : Spec.Parts) (wf : WF P) :
    Ref.set_scheme (recompose P) none = some (recompose { P with scheme := none, path := pathNoScheme P }) := by
  unfold Ref.set_scheme
  simp only [find_scheme_recompose P wf, ref_authority_recompose P wf, ref_path_recompose P wf, fsc_eq]
  cases hs : P.scheme with
  | none =>
    simp only [Option.map_none, Option.some.injEq]
    have hp : pathNoScheme P = P.path := by
      unfold pathNoScheme
      cases ha : P.authority with
      | some a => simp
      | none => simp [wf.noColon hs ha]
    rw [hp]
    obtain ⟨sch, au, pa, qu, fr⟩ := P
    simp only at hs
    subst hs; rfl
  | some s =>
    simp only [Option.map_some]
    rw [recompose_S, recompose_S, hs]
    simp only [schemeText, List.nil_append, splice]
    have hle : 0 ≤ s.length + 1 ∧ s.length + 1 ≤ (s ++ [cColon] ++ restS P).length := by simp
    simp only [hle, and_self, if_true, List.take_zero, List.nil_append, Option.some.injEq]
    have hd : (s ++ [cColon] ++ restS P).drop (s.length + 1) = restS P := by
      have : (s ++ [cColon]).length = s.length + 1 := by simp
      rw [← this, List.drop_left]
    rw [hd]
    unfold pathNoScheme restS
    cases ha : P.authority with
    | some a => simp [authText]
    | none =>
      by_cases hf : fsc P.path = true
      · simp [hf, authText, List.append_assoc]
      · have hf' : fsc P.path = false := by simpa using hf
        simp [hf', authText]

/-! ## authority -/

theorem splice_mid (pre mid post new : Text) (i j : Nat) (hi : i = pre.length) (hj : j = pre.length + mid.length) :
    splice (pre ++ mid ++ post) (i, j) new = some (pre ++ new ++ post) := by
  subst hi; subst hj
  unfold splice
  have hle : pre.length ≤ pre.length + mid.length ∧ pre.length + mid.length ≤ (pre ++ mid ++ post).length := by
    simp
  simp only [hle, and_self, if_true, Option.some.injEq]
  have e1 : (pre ++ mid ++ post).take pre.length = pre := by
    rw [List.append_assoc, List.take_left]
  have e2 : (pre ++ mid ++ post).drop (pre.length + mid.length) = post := by
    have : (pre ++ mid).length = pre.length + mid.length := by simp
    rw [← this, List.drop_left]
  rw [e1, e2]

theorem find_authority_full (w : Text) : find_authority w 0 =
    match (reference_parts w 0).authority with
    | some r => .ok r
    | none => .err (match (reference_parts w 0).scheme with | some r => r.2 + 1 | none => 0) := by
  unfold find_authority reference_parts
  generalize scheme_authority_or_path w 0 = x
  obtain ⟨t, n⟩ := x
  cases t
  · simp only
    generalize authority_or_path w (n + 1) = y
    obtain ⟨t2, m⟩ := y
    cases t2 <;> rfl
  · rfl
  · rfl

theorem find_authority_recompose_full (P : Spec.Parts) (wf : WF P) :
    find_authority (recompose P) 0 =
      match P.authority with
      | some a => .ok ((schemeText P.scheme).length + 2, (schemeText P.scheme).length + 2 + a.length)
      | none => .err (schemeText P.scheme).length := by
  rw [find_authority_full, reference_parts_recompose P wf]
  cases ha : P.authority with
  | some a => simp [rangesOf, ha]
  | none =>
    cases hs : P.scheme with
    | some s => simp [rangesOf, ha, hs, schemeText]
    | none => simp [rangesOf, ha, hs, schemeText]

/-- the path put behind a newly added authority -/
def pathWithAuth (P : Spec.Parts) : Text :=
  if P.authority.isNone && !P.path.isEmpty && !isAbs P.path then cSlash :: P.path else P.path

/-- the tail after the path begins with `?`, `#` or is empty -/
theorem tail_QF (P : Spec.Parts) : TailStart (queryText P.query ++ fragText P.fragment) :=
  tailStart_qf P.query P.fragment

theorem isPrefix_slash (l : Text) : Ref.startsWith l [cSlash] = isAbs l := by
  cases l with
  | nil => rfl
  | cons c l =>
    simp only [Ref.startsWith, List.isPrefixOf, isAbs, Bool.and_true]
    by_cases h : c = cSlash
    · subst h; simp
    · have : (cSlash == c) = false := by simp; exact fun e => h e.symm
      have h2 : (c == cSlash) = false := by simpa using h
      simp [this, h2]

theorem isPrefix_ss (l : Text) : Ref.startsWith l [cSlash, cSlash] = startsSS l := by
  match l with
  | [] => rfl
  | [a] =>
    simp [Ref.startsWith, List.isPrefixOf, startsSS]
  | a :: b :: r =>
    simp only [Ref.startsWith, List.isPrefixOf, startsSS, Bool.and_true]
    by_cases h1 : a = cSlash
    · subst h1
      by_cases h2 : b = cSlash
      · subst h2; simp
      · have e1 : (cSlash == b) = false := by simp; exact fun e => h2 e.symm
        have e2 : (b == cSlash) = false := by simpa using h2
        simp [e1, e2]
    · have e1 : (cSlash == a) = false := by simp; exact fun e => h1 e.symm
      have e2 : (a == cSlash) = false := by simpa using h1
      simp [e1, e2]

theorem set_authority_some_recompose (P : Spec.Parts) (wf : WF P) (a' : Text) :
    Ref.set_authority (recompose P) (some a') =
      some (recompose { P with authority := some a', path := pathWithAuth P }) := by
  unfold Ref.set_authority
  simp only [find_authority_recompose_full P wf]
  cases ha : P.authority with
  | some a =>
    simp only
    have hp : pathWithAuth P = P.path := by simp [pathWithAuth, ha]
    rw [hp, recompose_eq, recompose_eq, ha]
    simp only [authText]
    have e : schemeText P.scheme ++ ([cSlash, cSlash] ++ a) ++ P.path ++ queryText P.query ++ fragText P.fragment
        = (schemeText P.scheme ++ [cSlash, cSlash]) ++ a ++ (P.path ++ queryText P.query ++ fragText P.fragment) := by
      simp [List.append_assoc]
    rw [e, splice_mid _ a _ a' _ _ (by simp) (by simp)]
    simp [List.append_assoc]
  | none =>
    simp only
    have hw : recompose P = schemeText P.scheme ++ [] ++ (P.path ++ (queryText P.query ++ fragText P.fragment)) := by
      rw [recompose_eq, ha]; simp [authText, List.append_assoc]
    have hd : (recompose P).drop (schemeText P.scheme).length = P.path ++ (queryText P.query ++ fragText P.fragment) := by
      rw [hw]; simp
    rw [hd]
    have hts := tail_QF P
    generalize hT : queryText P.query ++ fragText P.fragment = T at hts hw ⊢
    cases hpp : P.path with
    | nil =>
      have hpw : pathWithAuth P = [] := by simp [pathWithAuth, hpp]
      simp only [List.nil_append, hpw]
      have hfin : splice (recompose P) ((schemeText P.scheme).length, (schemeText P.scheme).length) ([cSlash, cSlash] ++ a')
          = some (recompose { P with authority := some a', path := [] }) := by
        rw [hw, hpp, splice_mid _ [] _ _ _ _ (by simp) (by simp), recompose_eq, ← hT]
        simp [authText, List.append_assoc]
      cases T with
      | nil => simpa using hfin
      | cons c r =>
        rcases hts c r rfl with rfl | rfl
        · simpa using hfin
        · simpa using hfin
    | cons c r =>
      have hcq := wf.path c (by rw [hpp]; exact List.mem_cons_self)
      simp only [nQH, Bool.not_eq_true'] at hcq
      simp only [List.cons_append, hcq, Bool.not_false, Bool.true_and, isPrefix_slash, isAbs]
      by_cases hsl : (c == cSlash) = true
      · have hpw : pathWithAuth P = c :: r := by simp [pathWithAuth, ha, hpp, isAbs, hsl]
        simp only [hsl, Bool.not_true, Bool.false_eq_true, if_false, hpw]
        rw [hw, hpp, splice_mid _ [] _ _ _ _ (by simp) (by simp), recompose_eq, ← hT]
        simp [authText, List.append_assoc]
      · have hsl' : (c == cSlash) = false := by simpa using hsl
        have hpw : pathWithAuth P = cSlash :: c :: r := by simp [pathWithAuth, ha, hpp, isAbs, hsl']
        simp only [hsl', Bool.not_false, if_true, hpw]
        rw [hw, hpp, splice_mid _ [] _ _ _ _ (by simp) (by simp), recompose_eq, ← hT]
        simp [authText, List.append_assoc]

theorem startsSS_append_tail (pa T : Text) (hts : TailStart T) : startsSS (pa ++ T) = startsSS pa := by
  match pa with
  | [] =>
    match T, hts with
    | [], _ => rfl
    | [c], hts => rfl
    | c :: d :: r, hts =>
      rcases hts c (d :: r) rfl with rfl | rfl <;> simp [startsSS, cQuest, cHash, cSlash]
  | [a] =>
    match T, hts with
    | [], _ => rfl
    | c :: r, hts =>
      rcases hts c r rfl with rfl | rfl <;> simp [startsSS, cQuest, cHash, cSlash]
  | a :: b :: r => rfl

/-- the path left behind when the authority is removed -/
def pathNoAuth (P : Spec.Parts) : Text :=
  if P.authority.isSome && startsSS P.path then [cSlash, cDot] ++ P.path else P.path

theorem set_authority_none_recompose (P : Spec.Parts) (wf : WF P) :
    Ref.set_authority (recompose P) none =
      some (recompose { P with authority := none, path := pathNoAuth P }) := by
  unfold Ref.set_authority
  simp only [find_authority_recompose_full P wf]
  cases ha : P.authority with
  | none =>
    simp only [Option.some.injEq]
    have hp : pathNoAuth P = P.path := by simp [pathNoAuth, ha]
    rw [hp]
    obtain ⟨sch, au, pa, qu, fr⟩ := P
    simp only at ha
    subst ha; rfl
  | some a =>
    simp only
    have hts := tail_QF P
    generalize hT : queryText P.query ++ fragText P.fragment = T at hts
    have hw : recompose P = schemeText P.scheme ++ ([cSlash, cSlash] ++ a) ++ (P.path ++ T) := by
      rw [recompose_eq, ha, ← hT]; simp [authText, List.append_assoc]
    have hd : (recompose P).drop ((schemeText P.scheme).length + 2 + a.length) = P.path ++ T := by
      rw [hw]
      have : (schemeText P.scheme ++ ([cSlash, cSlash] ++ a)).length = (schemeText P.scheme).length + 2 + a.length := by
        simp; omega
      rw [← this, List.drop_left]
    have h2 : 2 ≤ (schemeText P.scheme).length + 2 := by omega
    simp only [hd, isPrefix_ss, startsSS_append_tail _ _ hts, h2, if_true, Nat.add_sub_cancel]
    rw [hw, splice_mid _ ([cSlash, cSlash] ++ a) _ _ _ _ rfl (by simp; omega), recompose_eq, ← hT]
    by_cases hss : startsSS P.path = true
    · simp [pathNoAuth, ha, hss, authText, List.append_assoc]
    · have hss' : startsSS P.path = false := by simpa using hss
      simp [pathNoAuth, ha, hss', authText, List.append_assoc]

/-! ## path -/

/-- the text written for a requested path `p'` -/
def setPathSpec (P : Spec.Parts) (p' : Text) : Text :=
  if !P.authority.isSome && startsSS p' then [cSlash, cDot] ++ p'
  else if P.authority.isSome && !isAbs p' && !p'.isEmpty then cSlash :: p'
  else if P.scheme.isNone && P.authority.isNone && fsc p' then [cDot, cSlash] ++ p'
  else p'

theorem is_relative_eq' (p : Text) : Path.is_relative p = !isAbs p := by
  cases p <;> rfl

theorem set_path_recompose (P : Spec.Parts) (wf : WF P) (p' : Text) :
    Ref.set_path (recompose P) p' = some (recompose { P with path := setPathSpec P p' }) := by
  unfold Ref.set_path
  simp only [find_path_recompose P wf, ref_authority_recompose P wf, isPrefix_ss, is_relative_eq', fsc_eq]
  have hw : recompose P = (schemeText P.scheme ++ authText P.authority) ++ P.path ++ (queryText P.query ++ fragText P.fragment) := by
    rw [recompose_eq]; simp [List.append_assoc]
  have hsp : ∀ X, splice (recompose P) ((schemeText P.scheme).length + (authText P.authority).length,
      (schemeText P.scheme).length + (authText P.authority).length + P.path.length) X
      = some (recompose { P with path := X }) := by
    intro X
    rw [hw, splice_mid _ P.path _ X _ _ (by simp) (by simp), recompose_eq]
    simp [List.append_assoc]
  have hz : ((schemeText P.scheme).length + (authText P.authority).length == 0) = (P.scheme.isNone && P.authority.isNone) := by
    cases hs : P.scheme with
    | some s => simp [schemeText]
    | none =>
      cases ha : P.authority with
      | some a => simp [schemeText, authText]
      | none => simp [schemeText, authText]
  simp only [hsp, hz, setPathSpec]
  by_cases h1 : (!P.authority.isSome && startsSS p') = true
  · simp only [h1, if_true]
  · have h1' : (!P.authority.isSome && startsSS p') = false := by simpa using h1
    simp only [h1', Bool.false_eq_true, if_false]
    by_cases h2 : (P.authority.isSome && !isAbs p' && !p'.isEmpty) = true
    · simp only [h2, if_true]
    · have h2' : (P.authority.isSome && !isAbs p' && !p'.isEmpty) = false := by simpa using h2
      simp only [h2', Bool.false_eq_true, if_false]
      by_cases h3 : (P.scheme.isNone && P.authority.isNone && fsc p') = true
      · simp only [h3, if_true]
      · have h3' : (P.scheme.isNone && P.authority.isNone && fsc p') = false := by simpa using h3
        simp only [h3', Bool.false_eq_true, if_false]

end IrefVerif.Lemmas
