import IrefVerif.Lemmas.PathMutView
import IrefVerif.Lemmas.EqKey
import IrefVerif.Oracle

/-!
# The model of `PathImpl::suffix` is the specification

`Cmp.pathSuffix a p` (compare the normalised segments pairwise after percent-decoding, then push
the remaining ones onto an empty path buffer) never panics on well-escaped paths, answers `none`
exactly when `Oracle.pathSuffixSpec` does, and otherwise returns the text obtained by pushing the
specified remaining segments one after the other onto the empty path.
-/

set_option linter.unusedSimpArgs false

namespace IrefVerif.Lemmas
open IrefVerif IrefVerif.Spec IrefVerif.Model IrefVerif.Model.Cmp IrefVerif.Oracle

/-- pushing segments one after the other onto a stand-alone path buffer -/
def pushAllText (buf : Text) (l : List Text) : Text :=
  l.foldl (fun b s => pushView false true true b s) buf

theorem suffixLoop_rest (ss : List Text) : ∀ buf, suffixLoop ss [] buf = some (some (pushAllText buf ss)) := by
  induction ss with
  | nil => intro buf; rfl
  | cons s ss ih =>
    intro buf
    have inv : PInv (PathMut.from_path buf) [] buf [] :=
      ⟨by simp [PathMut.from_path], rfl, by simp [PathMut.from_path]⟩
    obtain ⟨h', e, i, _, _⟩ := push_view _ _ _ _ inv s
    have hb : h'.buffer = pushView false true true buf s := by
      rw [i.data]
      simp [PathMut.from_path]
    simp only [suffixLoop, e, hb, ih, pushAllText, List.foldl_cons]

theorem isPrefixDecoded_cons (q : Text) (ps : List Text) (s : Text) (ss : List Text) :
    isPrefixDecoded (q :: ps) (s :: ss) = ((pctDecode q == pctDecode s) && isPrefixDecoded ps ss) := by
  unfold isPrefixDecoded
  simp only [List.length_cons, List.map_cons, List.take_succ_cons, Nat.add_le_add_iff_right]
  by_cases h1 : ps.length ≤ ss.length
  · by_cases h2 : pctDecode q = pctDecode s
    · simp [h1, h2]
    · have : (pctDecode q == pctDecode s) = false := by simpa using h2
      simp [h1, h2, this]
  · simp [h1]

theorem suffixLoop_spec (sp : List Text) : ∀ (sa : List Text),
    (∀ s ∈ sa, wellEscaped s = true) → (∀ s ∈ sp, wellEscaped s = true) →
    suffixLoop sa sp [] =
      some (if isPrefixDecoded sp sa then some (pushAllText [] (sa.drop sp.length)) else none) := by
  induction sp with
  | nil =>
    intro sa _ _
    cases sa with
    | nil => rfl
    | cons s ss =>
      rw [suffixLoop_rest]
      simp [isPrefixDecoded]
  | cons q ps ih =>
    intro sa ha hp
    cases sa with
    | nil => simp [suffixLoop, isPrefixDecoded]
    | cons s ss =>
      simp only [suffixLoop]
      rw [pctEq_eq s q (ha s List.mem_cons_self) (hp q List.mem_cons_self), isPrefixDecoded_cons]
      by_cases he : pctDecode s = pctDecode q
      · have h1 : (pctDecode s == pctDecode q) = true := by simpa using he
        have h2 : (pctDecode q == pctDecode s) = true := by simpa using he.symm
        simp only [h1, h2, Bool.true_and, List.length_cons, List.drop_succ_cons]
        exact ih ss (fun x hx => ha x (List.mem_cons_of_mem _ hx)) (fun x hx => hp x (List.mem_cons_of_mem _ hx))
      · have h1 : (pctDecode s == pctDecode q) = false := by simpa using he
        have h2 : (pctDecode q == pctDecode s) = false := by simpa using (fun e => he e.symm)
        simp [h1, h2]

/-- **the model of `Path::suffix` = the specification** -/
theorem pathSuffix_spec (a p : Text) (ha : PathText a) (hp : PathText p)
    (wa : wellEscaped a = true) (wp : wellEscaped p = true) :
    pathSuffix a p = some ((pathSuffixSpec a p).map (pushAllText [])) := by
  unfold pathSuffix pathSuffixSpec
  rw [is_absolute_eq, is_absolute_eq, normalized_segments_eq a ha, normalized_segments_eq p hp]
  by_cases hab : isAbs a = isAbs p
  · have h1 : (isAbs a != isAbs p) = false := by simp [hab]
    have h2 : (isAbs a == isAbs p) = true := by simp [hab]
    simp only [h1, Bool.false_eq_true, if_false, h2, Bool.true_and]
    rw [suffixLoop_spec _ _ (nsegs_we a wa) (nsegs_we p wp)]
    by_cases hpre : isPrefixDecoded (nsegs p) (nsegs a) = true
    · simp [hpre]
    · have : isPrefixDecoded (nsegs p) (nsegs a) = false := by simpa using hpre
      simp [this]
  · have h1 : (isAbs a != isAbs p) = true := by simp [hab]
    have h2 : (isAbs a == isAbs p) = false := by simp [hab]
    simp [h1, h2]

end IrefVerif.Lemmas
