import IrefVerif.Lemmas.RelativeSameDoc
import IrefVerif.Lemmas.ResolveRelBase

/-!
# The round trip between two rootless paths

`s:a/b/c` relative to `s:a/d/e`: no authority on either side, both paths relative (rootless or
empty), neither normalised list beginning with an unresolved `..` (those take the whole-target
fallback).  The argument of `Lemmas/RelativeRoundTrip.lean` with the relative walk `walkR` in the
place of `walk` and `resolve_relative_relbase` (Errata 4547) in the place of the authority branch.
-/

set_option linter.unusedSimpArgs false
set_option linter.unusedSectionVars false

namespace IrefVerif.Lemmas
open IrefVerif IrefVerif.RE IrefVerif.Spec IrefVerif.Model IrefVerif.Oracle IrefVerif.Findings IrefVerif.Props

/-! ## the relative walk on dot-free lists -/

theorem walkR_cons (e : List Text) (s : Text) (L : List Text) :
    walkR e (s :: L) = walkR (listSymPush false e s).1 L := rfl

theorem walkR_append (e : List Text) (L1 L2 : List Text) : walkR e (L1 ++ L2) = walkR (walkR e L1) L2 := by
  unfold walkR; rw [List.foldl_append]

theorem walkR_dot (e : List Text) (L : List Text) : walkR e (segDot :: L) = walkR e L := by
  rw [walkR_cons]; simp [listSymPush]

theorem listPopR_dotFree {e : List Text} (df : DotFree e) (hne : e ≠ []) : listPop false e = e.dropLast := by
  unfold listPop
  have h1 : (e.getLast? == some segDotDot) = false := by
    have : e.getLast? ≠ some segDotDot := fun hl => df.2 (List.mem_of_getLast? hl)
    simpa using this
  have h2 : e.isEmpty = false := by cases e <;> simp_all
  simp [h1, h2]

theorem walkR_ups_n : ∀ (n : Nat) (cb bs : List Text), bs.length = n → DotFree (cb ++ bs) →
    walkR (cb ++ bs) (List.replicate n segDotDot) = cb := by
  intro n
  induction n with
  | zero =>
    intro cb bs hl _
    have : bs = [] := List.eq_nil_of_length_eq_zero hl
    subst this; simp [walkR]
  | succ n ih =>
    intro cb bs hl df
    have hne : bs ≠ [] := by intro e; subst e; simp at hl
    rw [List.replicate_succ, walkR_cons]
    have hpop : (listSymPush false (cb ++ bs) segDotDot).1 = cb ++ bs.dropLast := by
      unfold listSymPush
      simp only [show (segDotDot == segDot) = false by decide, Bool.false_eq_true, if_false,
        show (segDotDot == segDotDot) = true by decide, if_true]
      rw [ite_lone_dot df, listPopR_dotFree df (by simp [hne]), List.dropLast_append_of_ne_nil hne]
    rw [hpop]
    apply ih cb bs.dropLast (by simp [hl])
    refine ⟨fun h => df.1 ?_, fun h => df.2 ?_⟩
    · rcases List.mem_append.mp h with h | h
      · exact List.mem_append_left _ h
      · exact List.mem_append_right _ ((List.dropLast_sublist bs).subset h)
    · rcases List.mem_append.mp h with h | h
      · exact List.mem_append_left _ h
      · exact List.mem_append_right _ ((List.dropLast_sublist bs).subset h)

theorem walkR_ups (bs cb : List Text) (df : DotFree (cb ++ bs)) :
    walkR (cb ++ bs) (bs.map fun _ => segDotDot) = cb := by
  rw [map_const_replicate]; exact walkR_ups_n bs.length cb bs rfl df

theorem walkR_nodots (ss : List Text) : ∀ e, NoDots ss → (e ≠ [] ∨ ss.head? ≠ some []) →
    walkR e ss = e ++ ss ∧ symSkipsGo false e ss = false := by
  induction ss with
  | nil => intro e _ _; simp [walkR, symSkipsGo]
  | cons s ss ih =>
    intro e hp hh
    obtain ⟨h2, h3⟩ := hp s List.mem_cons_self
    have hns : (s.isEmpty && e.isEmpty) = false := by
      rcases hh with h | h
      · have : e.isEmpty = false := by cases e <;> simp_all
        simp [this]
      · have : s ≠ [] := by simpa using h
        have : s.isEmpty = false := by cases s <;> simp_all
        simp [this]
    have e1 : (s == segDot) = false := by simpa using h2
    have e2 : (s == segDotDot) = false := by simpa using h3
    have hpush : (listSymPush false e s).1 = e ++ [s] := by
      unfold listSymPush
      simp [e1, e2, hns]
    obtain ⟨ihw, ihs⟩ := ih (e ++ [s]) (fun x hx => hp x (List.mem_cons_of_mem _ hx)) (.inl (by simp))
    constructor
    · rw [walkR_cons, hpush, ihw]; simp
    · simp only [symSkipsGo]
      have : (s != segDot && s != segDotDot && s.isEmpty && e.isEmpty) = false := by
        rw [Bool.and_assoc]
        simp [hns]
      rw [this]
      simp only [Bool.false_eq_true, if_false, hpush]
      exact ihs

theorem symSkipsGoR_append (L1 : List Text) : ∀ (e : List Text) (L2 : List Text),
    symSkipsGo false e L1 = false → symSkipsGo false (walkR e L1) L2 = false →
    symSkipsGo false e (L1 ++ L2) = false := by
  induction L1 with
  | nil => intro e L2 _ h; simpa [walkR] using h
  | cons s L1 ih =>
    intro e L2 h1 h2
    simp only [List.cons_append, symSkipsGo] at h1 ⊢
    by_cases hc : (s != segDot && s != segDotDot && s.isEmpty && e.isEmpty) = true
    · rw [hc] at h1; simp at h1
    · have hc' : (s != segDot && s != segDotDot && s.isEmpty && e.isEmpty) = false := by simpa using hc
      rw [hc'] at h1 ⊢
      simp only [Bool.false_eq_true, if_false] at h1 ⊢
      exact ih _ L2 h1 (by rw [walkR_cons] at h2; exact h2)

/-- a semi-normal list that does not begin with `..` has no dot segment at all -/
theorem semiNormal_head {L : List Text} (sn : SemiNormal L) (hh : (L.head? == some [cDot, cDot]) = false) :
    DotFree L := by
  obtain ⟨k, e, hL, df⟩ := sn
  cases k with
  | zero => simpa [hL] using df
  | succ k =>
    exfalso
    rw [hL, List.replicate_succ] at hh
    simp [segDotDot] at hh

/-! ## the round trip -/

section
variable (G : Grammar) (ok : Grammar.Ok G) (okp : Grammar.OkPath G)
include ok okp

/-- **the round trip between two rootless paths** -/
theorem relative_roundtrip_rootless (oka : Grammar.OkAuth G) (we : Grammar.OkWE G) (a b : Text)
    (ha : Matches G.full a) (hb : Matches G.full b)
    (hsch : (split a).scheme = (split b).scheme)
    (haa : (split a).authority = none) (hab : (split b).authority = none)
    (hpa : isAbs (split a).path = false) (hpb : isAbs (split b).path = false)
    (hhA : ((nsegs (split a).path).head? == some [cDot, cDot]) = false)
    (hhB : ((nsegs (Path.parent_or_empty (split b).path)).head? == some [cDot, cDot]) = false)
    (hne : nsegs (split a).path ≠ [])
    (hcls : (!(remainder a b).2.2 && (remainder a b).1.head? == some []) = false)
    (hhd : (nsegs (split a).path).head? ≠ some [] ∧
      (nsegs (Path.parent_or_empty (split b).path)).head? ≠ some [])
    (hnsp : sdCond a b = false) :
    ∃ r t, Ref.relative_to a b = some r ∧ Ref.resolve r b = some t ∧ key t = key a := by
  have haR : Matches G.reference a := Matches.altL ha
  have hbR : Matches G.reference b := Matches.altL hb
  obtain ⟨vA, wA⟩ := split_valid G ok a haR
  obtain ⟨vB, wB⟩ := split_valid G ok b hbR
  have hLne0 := relSegs_ne_nil G ok okp we a b haR hbR hne
  have habs0 : (Path.is_absolute (split a).path !=
      (Path.is_absolute (split b).path || ((split b).authority.isSome && Path.is_empty (split b).path))) = false := by
    rw [is_absolute_eq, is_absolute_eq, hpa, hpb, hab]; rfl
  have hbody := relative_body_explicit_core G ok okp we a b haR hbR habs0 hhA hhB hLne0 hcls
  rw [hnsp] at hbody
  simp only [Bool.false_eq_true, if_false] at hbody
  have hrel : Ref.relative_to a b =
      some (recompose (pathQF (renderRel (relSegs a b)) (split a).query (split a).fragment)) := by
    rw [relative_to_eq_body G ok okp oka we a b haR hbR hsch (by rw [haa, hab])]; exact hbody
  obtain ⟨r', er', vr'⟩ := relative_to_total G ok okp oka we a b haR hbR
  rw [hrel] at er'
  simp only [Option.some.injEq] at er'
  -- names
  have hptA : PathText (split a).path := pathText_of_wf _ wA
  have hptB : PathText (split b).path := pathText_of_wf _ wB
  have hweA : wellEscaped (split a).path = true := path_we G we _ vA
  have hweB : wellEscaped (split b).path = true := path_we G we _ vB
  obtain ⟨hpw, hpp⟩ := parent_or_empty_props (split b).path
  -- the normalised directory of the base is the start of the walk
  have he0 : nsegs (Path.parent_or_empty (split b).path) = nsegsOf false (segs (split b).path).dropLast := by
    obtain ⟨h1, h2, _⟩ := parent_segs_rel (split b).path hpb
    unfold nsegs
    rw [h2, h1]
  obtain ⟨ca, cb, hA, hB, hcab, hcm, hssne⟩ := dropCommon_spec (nsegs (split a).path) (nsegs (Path.parent_or_empty (split b).path))
    (nsegs_we _ hweA) (nsegs_we _ (hpw hweB))
  unfold relSegs remainder at hrel er'
  unfold remainder at hcls
  generalize hd : Ref.dropCommon (nsegs (split a).path) (nsegs (Path.parent_or_empty (split b).path)) = d at hrel er' hcls hA hB hcm hssne
  obtain ⟨ss, bs, cm⟩ := d
  simp only [] at hrel er' hcls hA hB hcm hssne
  have hrem1 : ss ≠ [] := hssne hne
  -- segments of `a` are dot-free and free of `/`
  have hdfA : DotFree (nsegs (split a).path) := by
    apply semiNormal_head _ hhA
    unfold nsegs; rw [hpa]; exact semiNormal_nsegsOf _
  have hdfB : DotFree (nsegs (Path.parent_or_empty (split b).path)) := by
    apply semiNormal_head _ hhB
    rw [he0]; exact semiNormal_nsegsOf _
  have hplain : NoDots ss := by
    intro s hs
    have hm : s ∈ nsegs (split a).path := by rw [hA]; exact List.mem_append_right _ hs
    exact ⟨fun e => hdfA.1 (e ▸ hm), fun e => hdfA.2 (e ▸ hm)⟩
  -- nothing is skipped: the common prefix is not empty, or the remainder does not begin with an
  -- empty segment
  have hstart : cb ≠ [] ∨ ss.head? ≠ some [] := by
    by_cases hc : cm = true
    · exact .inl (hcm.mp hc)
    · right
      have hc' : cm = false := by simpa using hc
      rw [hc'] at hcls
      simpa using hcls
  have hnsA : ∀ s ∈ nsegs (split a).path, cSlash ∉ s := fun s hs => segs_no_slash _ s (nsegsOf_subset _ _ s hs)
  have hnsB : ∀ s ∈ nsegs (Path.parent_or_empty (split b).path), cSlash ∉ s :=
    fun s hs => segs_no_slash _ s (nsegsOf_subset _ _ s hs)
  -- the relative reference
  obtain ⟨L, hL⟩ : ∃ L, L = (bs.map fun _ => segDotDot) ++ ss := ⟨_, rfl⟩
  rw [← hL] at hrel er'
  have hLne : L ≠ [] := by rw [hL]; intro e; exact hrem1 (List.append_eq_nil_iff.mp e).2
  have hLns : ∀ s ∈ L, cSlash ∉ s ∧ PathText s := by
    intro s hs
    rw [hL] at hs
    rcases List.mem_append.mp hs with h | h
    · simp only [List.mem_map] at h
      obtain ⟨_, _, rfl⟩ := h
      exact ⟨by decide, pathText_dotdot⟩
    · have hm : s ∈ nsegs (split a).path := by rw [hA]; exact List.mem_append_right _ h
      have hm' : s ∈ segs (split a).path := nsegsOf_subset _ _ s hm
      exact ⟨segs_no_slash _ s hm', fun c hc => hptA c
        (mem_of_mem_splitSlash' _ s (segs_subset_splitSlash G ok okp _ s hm') c hc)⟩
  obtain ⟨hpt, hfc, hsS, hrelp⟩ := renderRel_props L hLns
  have wfr := wf_pathQF (renderRel L) (split a).query (split a).fragment hpt hfc hsS wA.query
  obtain ⟨R, hRdef⟩ : ∃ R, R = recompose (pathQF (renderRel L) (split a).query (split a).fragment) := ⟨_, rfl⟩
  rw [← hRdef] at hrel er'
  have hsplit : split R = pathQF (renderRel L) (split a).query (split a).fragment := by
    rw [hRdef]; exact Lemmas.split_recompose _ wfr
  have hvr : Matches G.reference R := by rw [er']; exact vr'
  have hRne : renderRel L ≠ [] := renderRel_ne_nil L hLne (fun s hs => (hLns s hs).1)
  -- the segments of the reference path, and why nothing is skipped while they are appended
  have hS : splitSlash (renderRel L) = L ∨ splitSlash (renderRel L) = segDot :: L :=
    splitSlash_renderRel L hLne (fun s hs => (hLns s hs).1)
  have hdfe : DotFree (cb ++ bs) := by rw [← hB]; exact hdfB
  have hskL : symSkipsGo false (cb ++ bs) L = false := by
    rw [hL]
    apply symSkipsGoR_append
    · exact noSkip_nonempty false _ _ (by
        intro s hs
        simp only [List.mem_map] at hs
        obtain ⟨_, _, rfl⟩ := hs; decide)
    · rw [walkR_ups bs cb hdfe]
      exact (walkR_nodots ss cb hplain hstart).2
  have hsk : symSkipsGo false (nsegsOf false (segs (split b).path).dropLast) (splitSlash (renderRel L)) = false := by
    rw [← he0, hB]
    rcases hS with e | e <;> rw [e]
    · exact hskL
    · simp only [symSkipsGo]
      have : (segDot != segDot && segDot != segDotDot && segDot.isEmpty && (cb ++ bs).isEmpty) = false := by simp
      rw [this]
      simp only [Bool.false_eq_true, if_false]
      have hp : (listSymPush false (cb ++ bs) segDot).1 = cb ++ bs := by simp [listSymPush]
      rw [hp]
      exact hskL
  -- the target
  have hrd := removeDots_merge_rel (split b).path (renderRel L) hpb hRne hrelp hsk
  -- the walk
  have hwalk : walkR (nsegsOf false (segs (split b).path).dropLast) (splitSlash (renderRel L)) = cb ++ ss := by
    rw [← he0, hB]
    have hdf : DotFree (cb ++ bs) := by rw [← hB]; exact hdfB
    rcases hS with e | e <;> rw [e]
    · rw [hL, walkR_append, walkR_ups bs cb hdf, (walkR_nodots ss cb hplain hstart).1]
    · rw [walkR_dot, hL, walkR_append, walkR_ups bs cb hdf, (walkR_nodots ss cb hplain hstart).1]
  have hld : lastDot (splitSlash (renderRel L)) = false := by
    rcases hS with e | e <;> rw [e, hL]
    · exact lastDot_nodots _ ss hrem1 hplain
    · rw [← List.cons_append]; exact lastDot_nodots _ ss hrem1 hplain
  rw [hwalk, hld] at hrd
  simp only [Bool.false_and, Bool.false_eq_true, if_false, List.append_nil] at hrd
  -- the key of the result
  obtain ⟨sb, hsb⟩ : ∃ sb, (split b).scheme = some sb := by
    have := ((C02.full_iff_scheme G ok b).mp hb).2
    exact Option.isSome_iff_exists.mp this
  have hT : resolveSpec b R = tgt sb none (joinSlash (cb ++ ss)) (split a).query (split a).fragment := by
    have hpe : (renderRel L).isEmpty = false := by cases h : renderRel L <;> simp_all
    simp only [resolveSpec, transform, hsplit, pathQF, hpe, Bool.false_eq_true, if_false, hrelp, hab,
      Option.isSome_none, hrd, hsb, tgt]
  have hX : ∀ s ∈ cb ++ ss, cSlash ∉ s := by
    intro s hs
    rcases List.mem_append.mp hs with h | h
    · exact hnsB s (by rw [hB]; exact List.mem_append_left _ h)
    · exact hnsA s (by rw [hA]; exact List.mem_append_right _ h)
  have hXne : cb ++ ss ≠ [] := fun e => hrem1 (List.append_eq_nil_iff.mp e).2
  have hXdf : DotFree (cb ++ ss) := by
    refine ⟨fun h => ?_, fun h => ?_⟩
    · rcases List.mem_append.mp h with h | h
      · exact hdfB.1 (by rw [hB]; exact List.mem_append_left _ h)
      · exact hdfA.1 (by rw [hA]; exact List.mem_append_right _ h)
    · rcases List.mem_append.mp h with h | h
      · exact hdfB.2 (by rw [hB]; exact List.mem_append_left _ h)
      · exact hdfA.2 (by rw [hA]; exact List.mem_append_right _ h)
  -- the first segment of the target is not empty
  have hXhead : (cb ++ ss).head? ≠ some [] := by
    obtain ⟨h1, h2⟩ := hhd
    cases hcb : cb with
    | nil =>
      have hca : ca = [] := by
        have := congrArg List.length hcab
        rw [hcb] at this
        simpa using this
      rw [hA, hca] at h1
      simpa using h1
    | cons c cs =>
      rw [hB, hcb] at h2
      simpa using h2
  have hfaith : ∃ c r rest, cb ++ ss = (c :: r) :: rest := by
    cases hX2 : cb ++ ss with
    | nil => exact absurd hX2 hXne
    | cons first rest =>
      cases first with
      | nil => rw [hX2] at hXhead; exact absurd rfl hXhead
      | cons c r => exact ⟨c, r, rest, rfl⟩
  obtain ⟨hsg, habsT⟩ := segs_render false (cb ++ ss) hXne hX (by simpa using hfaith)
  simp only [Bool.false_eq_true, if_false, List.nil_append] at hsg habsT
  have hptT : PathText (joinSlash (cb ++ ss)) := by
    intro c h
    · have hall : ∀ x ∈ cb ++ ss, PathText x := by
        intro x hx
        rcases List.mem_append.mp hx with h2 | h2
        · have hm : x ∈ nsegs (Path.parent_or_empty (split b).path) := by rw [hB]; exact List.mem_append_left _ h2
          have hm' := nsegsOf_subset _ _ x hm
          exact fun c hc => (hpp hptB) c (mem_of_mem_splitSlash' _ x (segs_subset_splitSlash G ok okp _ x hm') c hc)
        · exact (hLns x (by rw [hL]; exact List.mem_append_right _ h2)).2
      have hj : ∀ (M : List Text), (∀ x ∈ M, PathText x) → ∀ c ∈ joinSlash M, c ≠ cQuest ∧ c ≠ cHash := by
        intro M
        induction M with
        | nil => intro _ c hc; cases hc
        | cons x xs ih =>
          intro hM c hc
          cases xs with
          | nil => exact hM x List.mem_cons_self c hc
          | cons y ys =>
            simp only [joinSlash] at hc
            rcases List.mem_append.mp hc with h3 | h3
            · exact hM x List.mem_cons_self c h3
            · rcases List.mem_cons.mp h3 with h3 | h3
              · subst h3; decide
              · exact ih (fun z hz => hM z (List.mem_cons_of_mem _ hz)) c h3
      exact hj _ hall c h
  have wfT : WF (tgt sb none (joinSlash (cb ++ ss)) (split a).query (split a).fragment) :=
    { scheme := fun s hs => by simp only [tgt, Option.some.injEq] at hs; subst hs; exact wB.scheme sb hsb
      authority := fun x hx => by simp [tgt] at hx
      path := fun c hc => by
        have := hptT c hc
        simp [nQH, this.1, this.2]
      query := wA.query
      abempty := fun h => by simp [tgt] at h
      noSS := fun _ => startsSS_isAbs habsT
      noColon := fun hn _ => by simp [tgt] at hn }
  -- resolution
  have hres : Ref.resolve R b = some (recompose (resolveSpec b R)) :=
    resolve_relative_relbase G ok okp b R hb hvr (by rw [hsplit]; rfl) (by rw [hsplit]; rfl)
      (by rw [hsplit]; exact hRne) (by rw [hsplit]; exact hrelp) hab hpb
      (by rw [hsplit]; exact hsk) (by rw [hT]; exact habsT)
  refine ⟨R, _, hrel, hres, ?_⟩
  have hsT := Lemmas.split_recompose _ wfT
  rw [hT]
  unfold key
  rw [hsT]
  simp only [tgt, Option.map_none, haa, hsch, hsb]
  congr 1
  unfold pathKey
  rw [hpa, habsT]
  congr 1
  unfold nsegs
  rw [habsT, hsg, nsegsOf_dotFree _ _ hXdf]
  have hAn : nsegsOf (isAbs (split a).path) (segs (split a).path) = ca ++ ss := hA
  rw [hAn, List.map_append, List.map_append, hcab]



/-- **the shortcut between two rootless paths** (`s:a/b#f` relative to `s:a/./b` is `#f`) -/
theorem relative_roundtrip_samedoc_rootless (oka : Grammar.OkAuth G) (we : Grammar.OkWE G) (a b : Text)
    (ha : Matches G.full a) (hb : Matches G.full b)
    (hsch : (split a).scheme = (split b).scheme)
    (haa : (split a).authority = none) (hab : (split b).authority = none)
    (hpa : isAbs (split a).path = false) (hpb : isAbs (split b).path = false)
    (hhA : ((nsegs (split a).path).head? == some [cDot, cDot]) = false)
    (hhB : ((nsegs (Path.parent_or_empty (split b).path)).head? == some [cDot, cDot]) = false)
    (hne : nsegs (split a).path ≠ [])
    (hcls : (!(remainder a b).2.2 && (remainder a b).1.head? == some []) = false)
    (hsd : sdCond a b = true) :
    ∃ r t, Ref.relative_to a b = some r ∧ Ref.resolve r b = some t ∧ key t = key a := by
  have habs0 : (Path.is_absolute (split a).path !=
      (Path.is_absolute (split b).path || ((split b).authority.isSome && Path.is_empty (split b).path))) = false := by
    rw [is_absolute_eq, is_absolute_eq, hpa, hpb, hab]; rfl
  have hdfA : DotFree (nsegs (split a).path) := by
    apply semiNormal_head _ hhA
    unfold nsegs; rw [hpa]; exact semiNormal_nsegsOf _
  have he0 : nsegs (Path.parent_or_empty (split b).path) = nsegsOf false (segs (split b).path).dropLast := by
    obtain ⟨h1, h2, _⟩ := parent_segs_rel (split b).path hpb
    unfold nsegs
    rw [h2, h1]
  exact relative_roundtrip_samedoc_core G ok okp oka we a b ha hb hsch (by rw [haa, hab]) habs0 hhA hhB hdfA
    (fun _ => by rw [hpa, hpb]) (fun _ => by rw [hpb]; exact he0) hne hcls hsd


/-- **an empty target path between two rootless paths** (`s:?q` relative to `s:a/b` is `..?q`): the
reference is `..` for every segment of the base's directory, and resolving it climbs back to the
empty path -/
theorem relative_roundtrip_empty_rootless (oka : Grammar.OkAuth G) (we : Grammar.OkWE G) (a b : Text)
    (ha : Matches G.full a) (hb : Matches G.full b)
    (hsch : (split a).scheme = (split b).scheme)
    (haa : (split a).authority = none) (hab : (split b).authority = none)
    (hpa : isAbs (split a).path = false) (hpb : isAbs (split b).path = false)
    (hhB : ((nsegs (Path.parent_or_empty (split b).path)).head? == some [cDot, cDot]) = false)
    (hroot : nsegs (split a).path = [])
    (hbelow : nsegs (Path.parent_or_empty (split b).path) ≠ [])
    (hnsp : sdCond a b = false) :
    ∃ r t, Ref.relative_to a b = some r ∧ Ref.resolve r b = some t ∧ key t = key a := by
  have haR : Matches G.reference a := Matches.altL ha
  have hbR : Matches G.reference b := Matches.altL hb
  obtain ⟨vA, wA⟩ := split_valid G ok a haR
  obtain ⟨vB, wB⟩ := split_valid G ok b hbR
  -- nothing is compared: the remainder is the whole directory of the base
  obtain ⟨hrem, hLdef, hLne0, hcls⟩ := root_remainder a b hroot hbelow
  have habs0 : (Path.is_absolute (split a).path !=
      (Path.is_absolute (split b).path || ((split b).authority.isSome && Path.is_empty (split b).path))) = false := by
    rw [is_absolute_eq, is_absolute_eq, hpa, hpb, hab]; rfl
  have hhA : ((nsegs (split a).path).head? == some [cDot, cDot]) = false := by rw [hroot]; rfl
  have hbody := relative_body_explicit_core G ok okp we a b haR hbR habs0 hhA hhB hLne0 hcls
  rw [hnsp] at hbody
  simp only [Bool.false_eq_true, if_false] at hbody
  have hrel : Ref.relative_to a b =
      some (recompose (pathQF (renderRel (relSegs a b)) (split a).query (split a).fragment)) := by
    rw [relative_to_eq_body G ok okp oka we a b haR hbR hsch (by rw [haa, hab])]; exact hbody
  obtain ⟨r', er', vr'⟩ := relative_to_total G ok okp oka we a b haR hbR
  rw [hrel] at er'
  simp only [Option.some.injEq] at er'
  have hptB : PathText (split b).path := pathText_of_wf _ wB
  have he0 : nsegs (Path.parent_or_empty (split b).path) = nsegsOf false (segs (split b).path).dropLast := by
    obtain ⟨h1, h2, _⟩ := parent_segs_rel (split b).path hpb
    unfold nsegs
    rw [h2, h1]
  have hdfB : DotFree (nsegs (Path.parent_or_empty (split b).path)) := by
    apply semiNormal_head _ hhB
    rw [he0]; exact semiNormal_nsegsOf _
  obtain ⟨bs, hbs⟩ : ∃ bs, bs = nsegs (Path.parent_or_empty (split b).path) := ⟨_, rfl⟩
  rw [← hbs] at hLdef hbelow hdfB
  obtain ⟨L, hL⟩ : ∃ L, L = bs.map fun _ => segDotDot := ⟨_, rfl⟩
  rw [hLdef, ← hL] at hrel er' hLne0
  have hLns : ∀ s ∈ L, cSlash ∉ s ∧ PathText s := by
    intro s hs
    rw [hL] at hs
    simp only [List.mem_map] at hs
    obtain ⟨_, _, rfl⟩ := hs
    exact ⟨by decide, pathText_dotdot⟩
  obtain ⟨hpt, hfc, hsS, hrelp⟩ := renderRel_props L hLns
  have wfr := wf_pathQF (renderRel L) (split a).query (split a).fragment hpt hfc hsS wA.query
  obtain ⟨R, hRdef⟩ : ∃ R, R = recompose (pathQF (renderRel L) (split a).query (split a).fragment) := ⟨_, rfl⟩
  rw [← hRdef] at hrel er'
  have hsplit : split R = pathQF (renderRel L) (split a).query (split a).fragment := by
    rw [hRdef]; exact Lemmas.split_recompose _ wfr
  have hvr : Matches G.reference R := by rw [er']; exact vr'
  have hRne : renderRel L ≠ [] := renderRel_ne_nil L hLne0 (fun s hs => (hLns s hs).1)
  have hS : splitSlash (renderRel L) = L ∨ splitSlash (renderRel L) = segDot :: L :=
    splitSlash_renderRel L hLne0 (fun s hs => (hLns s hs).1)
  have hskL : symSkipsGo false bs L = false := by
    rw [hL]
    exact noSkip_nonempty false _ _ (by
      intro s hs
      simp only [List.mem_map] at hs
      obtain ⟨_, _, rfl⟩ := hs; decide)
  have hsk : symSkipsGo false (nsegsOf false (segs (split b).path).dropLast) (splitSlash (renderRel L)) = false := by
    rw [← he0, ← hbs]
    rcases hS with e | e <;> rw [e]
    · exact hskL
    · simp only [symSkipsGo]
      have : (segDot != segDot && segDot != segDotDot && segDot.isEmpty && bs.isEmpty) = false := by simp
      rw [this]
      simp only [Bool.false_eq_true, if_false]
      have hp : (listSymPush false bs segDot).1 = bs := by simp [listSymPush]
      rw [hp]
      exact hskL
  have hrd := removeDots_merge_rel (split b).path (renderRel L) hpb hRne hrelp hsk
  have hwalk : walkR (nsegsOf false (segs (split b).path).dropLast) (splitSlash (renderRel L)) = [] := by
    rw [← he0, ← hbs]
    have hw : walkR bs L = [] := by
      rw [hL]
      have := walkR_ups bs [] (by simpa using hdfB)
      simpa using this
    rcases hS with e | e <;> rw [e]
    · exact hw
    · rw [walkR_dot]; exact hw
  rw [hwalk] at hrd
  simp only [List.isEmpty_nil, Bool.not_true, Bool.and_false, Bool.false_eq_true, if_false, List.append_nil,
    joinSlash] at hrd
  obtain ⟨sb, hsb⟩ : ∃ sb, (split b).scheme = some sb := by
    have := ((C02.full_iff_scheme G ok b).mp hb).2
    exact Option.isSome_iff_exists.mp this
  have hT : resolveSpec b R = tgt sb none [] (split a).query (split a).fragment := by
    have hpe : (renderRel L).isEmpty = false := by cases h : renderRel L <;> simp_all
    simp only [resolveSpec, transform, hsplit, pathQF, hpe, Bool.false_eq_true, if_false, hrelp, hab,
      Option.isSome_none, hrd, hsb, tgt]
  have wfT : WF (tgt sb none [] (split a).query (split a).fragment) :=
    { scheme := fun s hs => by simp only [tgt, Option.some.injEq] at hs; subst hs; exact wB.scheme sb hsb
      authority := fun x hx => by simp [tgt] at hx
      path := fun c hc => by simp [tgt] at hc
      query := wA.query
      abempty := fun h => by simp [tgt] at h
      noSS := fun _ => rfl
      noColon := fun hn _ => by simp [tgt] at hn }
  have hres : Ref.resolve R b = some (recompose (resolveSpec b R)) :=
    resolve_relative_relbase G ok okp b R hb hvr (by rw [hsplit]; rfl) (by rw [hsplit]; rfl)
      (by rw [hsplit]; exact hRne) (by rw [hsplit]; exact hrelp) hab hpb
      (by rw [hsplit]; exact hsk) (by rw [hT]; rfl)
  refine ⟨R, _, hrel, hres, ?_⟩
  have hsT := Lemmas.split_recompose _ wfT
  rw [hT]
  unfold key
  rw [hsT]
  simp only [tgt, Option.map_none, haa, hsch, hsb]
  congr 1
  unfold pathKey
  rw [hpa]
  have h1 : isAbs ([] : Text) = false := rfl
  have h2 : nsegs ([] : Text) = [] := by decide
  rw [h1, h2, hroot]



end

end IrefVerif.Lemmas
