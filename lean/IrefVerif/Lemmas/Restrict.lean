import IrefVerif.Lemmas.Sub
import IrefVerif.Spec.Rfc3986
import IrefVerif.Spec.Rfc3987

/-!
# Restriction of a production to an initial segment of the alphabet

`restrictTo m r` clips every character class of `r` to `[0, m]`.  Every word of `L(r)` whose symbols
are all `≤ m` is in `L(restrictTo m r)`.  With the verified inclusion test this gives the converse
of "URI ⊆ IRI": an IRI production restricted to ASCII is included in the URI production, so an
IRI (reference) made of ASCII characters only **is** a URI (reference).
-/

namespace IrefVerif.Lemmas
open IrefVerif IrefVerif.RE

def clipTo (m : Nat) : Ranges → Ranges
  | [] => []
  | p :: rs => if p.1 ≤ m then (p.1, min p.2 m) :: clipTo m rs else clipTo m rs

def restrictTo (m : Nat) : RE → RE
  | .cls rs => .cls (clipTo m rs)
  | .seq a b => .seq (restrictTo m a) (restrictTo m b)
  | .alt a b => .alt (restrictTo m a) (restrictTo m b)
  | .star a => .star (restrictTo m a)
  | .empty => .empty
  | .eps => .eps

theorem inCls_clipR (m : Nat) (rs : Ranges) (c : Nat) (h : inCls rs c = true) (hc : c ≤ m) :
    inCls (clipTo m rs) c = true := by
  induction rs with
  | nil => simp [inCls] at h
  | cons p rs ih =>
    simp only [inCls, Bool.or_eq_true, Bool.and_eq_true, Nat.ble_eq] at h
    unfold clipTo
    rcases h with ⟨h1, h2⟩ | h
    · have : p.1 ≤ m := by omega
      rw [if_pos this]
      simp only [inCls, Bool.or_eq_true, Bool.and_eq_true, Nat.ble_eq]
      left; exact ⟨h1, by omega⟩
    · split
      · simp only [inCls, Bool.or_eq_true]
        right; exact ih h
      · exact ih h

theorem matches_restrictTo (m : Nat) {r : RE} {w : List Nat} (h : Matches r w) :
    (∀ c ∈ w, c ≤ m) → Matches (restrictTo m r) w := by
  induction h with
  | eps => intro _; exact .eps
  | cls hc => intro hw; exact .cls (inCls_clipR m _ _ hc (hw _ (by simp)))
  | seq _ _ iha ihb =>
    intro hw
    exact .seq (iha fun c hc => hw c (List.mem_append_left _ hc)) (ihb fun c hc => hw c (List.mem_append_right _ hc))
  | altL _ ih => intro hw; exact .altL (ih hw)
  | altR _ ih => intro hw; exact .altR (ih hw)
  | starNil => intro _; exact .starNil
  | starCons _ _ iha ihb =>
    intro hw
    exact .starCons (iha fun c hc => hw c (List.mem_append_left _ hc)) (ihb fun c hc => hw c (List.mem_append_right _ hc))

/-- an IRI reference written with ASCII characters only is a URI reference -/
theorem iriRef_ascii_uriRef (w : List Nat) (h : Matches Rfc3987.IRIreference w) (ha : ∀ c ∈ w, c < 0x80) :
    Matches Rfc3986.URIreference w :=
  sub_sound (r := restrictTo 0x7F Rfc3987.IRIreference) (by decide)
    (matches_restrictTo 0x7F h fun c hc => by have := ha c hc; omega)

/-- an IRI written with ASCII characters only is a URI -/
theorem iri_ascii_uri (w : List Nat) (h : Matches Rfc3987.IRI w) (ha : ∀ c ∈ w, c < 0x80) :
    Matches Rfc3986.URI w :=
  sub_sound (r := restrictTo 0x7F Rfc3987.IRI) (by decide)
    (matches_restrictTo 0x7F h fun c hc => by have := ha c hc; omega)

end IrefVerif.Lemmas
