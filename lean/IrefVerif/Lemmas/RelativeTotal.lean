import IrefVerif.Props.C04
import IrefVerif.Lemmas.RefSuffix
import IrefVerif.Lemmas.ParentSegs

/-!
# `relative_to` is total and returns a valid reference

The part of C15 that holds of every pair: for every pair of valid
references the model of `RiRefImpl::relative_to` does not panic and its result matches the
grammar again.
-/

set_option linter.unusedSimpArgs false

namespace IrefVerif.Lemmas
open IrefVerif IrefVerif.RE IrefVerif.Spec IrefVerif.Model IrefVerif.Props

theorem dropCommonPanics_false : ∀ (ss bs : List Text), (∀ s ∈ ss, wellEscaped s = true) →
    (∀ s ∈ bs, wellEscaped s = true) → Ref.dropCommonPanics ss bs = false := by
  intro ss
  induction ss with
  | nil => intro bs _ _; cases bs <;> rfl
  | cons a as ih =>
    intro bs ha hb
    cases as with
    | nil => cases bs <;> rfl
    | cons a2 as' =>
      cases bs with
      | nil => rfl
      | cons b bs' =>
        simp only [Ref.dropCommonPanics, pctEq_eq a b (ha a List.mem_cons_self) (hb b List.mem_cons_self)]
        split
        · rename_i h; cases h
        · exact ih bs' (fun s hs => ha s (List.mem_cons_of_mem _ hs)) (fun s hs => hb s (List.mem_cons_of_mem _ hs))
        · rfl

theorem dropCommon_subset : ∀ (ss bs : List Text),
    (∀ s ∈ (Ref.dropCommon ss bs).1, s ∈ ss) ∧ (Ref.dropCommon ss bs).2.1.length ≤ bs.length := by
  intro ss
  induction ss with
  | nil => intro bs; cases bs <;> simp [Ref.dropCommon]
  | cons a as ih =>
    intro bs
    cases as with
    | nil => cases bs <;> simp [Ref.dropCommon]
    | cons a2 as' =>
      cases bs with
      | nil => simp [Ref.dropCommon]
      | cons b bs' =>
        simp only [Ref.dropCommon]
        split
        · obtain ⟨h1, h2⟩ := ih bs'
          exact ⟨fun s hs => List.mem_cons_of_mem _ (h1 s hs), by simp; omega⟩
        · exact ⟨fun s hs => hs, Nat.le_refl _⟩

section
variable (G : Grammar) (ok : Grammar.Ok G) (okp : Grammar.OkPath G)
include ok okp

/-- the empty relative reference -/
theorem empty_reference_valid : Matches G.reference [] := by
  have hv : ValidParts G { scheme := none, authority := none, path := [], query := none, fragment := none } :=
    { scheme := fun s hs => by simp at hs
      authority := fun a ha => by simp at ha
      pathAuth := fun h => by simp at h
      pathScheme := fun _ h => by simp at h
      pathRel := fun _ _ => .inr (.inr rfl)
      query := fun q hq => by simp at hq
      fragment := fun f hf => by simp at hf }
  have := (reference_iff G _).mpr ⟨_, rfl, hv⟩
  simpa [recompose_eq, schemeText, authText, queryText, fragText] using this

/-- pushing valid segments one after the other, re-taking the handle each time -/
theorem pushAll_valid (L : List Text) : ∀ (b : Text), Matches G.reference b → (∀ s ∈ L, Matches G.segment s) →
    ∃ r, Ref.pushAll b L = some r ∧ Matches G.reference r := by
  induction L with
  | nil => intro b hb _; exact ⟨b, rfl, hb⟩
  | cons s L ih =>
    intro b hb hall
    obtain ⟨h', e, hv, _⟩ := path_session_valid G ok okp b hb [.push s]
      (by intro op hop; simp at hop; subst hop; exact hall s List.mem_cons_self)
    have e' : (Ref.path_mut b).push s = some h' := by
      simp only [C10.pathRun, C10.pathStep] at e
      cases hp : (Ref.path_mut b).push s with
      | none => rw [hp] at e; cases e
      | some x => rw [hp] at e; simp at e; rw [e]
    obtain ⟨r, er, hr⟩ := ih h'.buffer hv (fun t ht => hall t (List.mem_cons_of_mem _ ht))
    exact ⟨r, by simp only [Ref.pushAll, e', Option.bind_eq_bind, Option.bind_some, er], hr⟩

omit ok okp in
theorem parent_props (p r : Text) (h : Path.parent p = some r) :
    (wellEscaped p = true → wellEscaped r = true) ∧ (PathText p → PathText r) := by
  unfold Path.parent at h
  by_cases hem : Path.is_empty p = true
  · simp [hem] at h
  · have hem' : Path.is_empty p = false := by simpa using hem
    simp only [hem', Bool.false_eq_true, if_false] at h
    have hpne : p ≠ [] := by intro e; subst e; simp [Path.is_empty] at hem'
    have hle := lastSlashFrom_le p (p.length - 1)
    generalize Path.lastSlashFrom p (p.length - 1) = e at hle h
    have hlt : e < p.length := by
      have : 0 < p.length := by cases p <;> simp_all
      omega
    by_cases hsl : (p.getD e 0 == cSlash) = true
    · simp only [hsl, if_true] at h
      by_cases h0 : (e == 0) = true
      · simp only [h0, if_true, Option.some.injEq] at h
        subst h
        exact ⟨fun _ => by decide, fun _ => pathText_lit_slash⟩
      · have h0' : (e == 0) = false := by simpa using h0
        simp only [h0', Bool.false_eq_true, if_false] at h
        by_cases h1 : (e == 1 && p.getD 0 0 == cSlash && p.getD 1 0 == cSlash) = true
        · simp only [h1, if_true, Option.some.injEq] at h
          subst h
          exact ⟨fun _ => by decide, fun _ => by
            intro c hc; simp at hc; rcases hc with rfl | rfl | rfl <;> decide⟩
        · have h1' : (e == 1 && p.getD 0 0 == cSlash && p.getD 1 0 == cSlash) = false := by simpa using h1
          simp only [h1', Bool.false_eq_true, if_false, Option.some.injEq] at h
          subst h
          have hsp := split_at_slash p e hlt (by simpa using hsl)
          refine ⟨fun hw => ?_, fun hp => pathText_take _ _ hp⟩
          rw [hsp, wellEscaped_append_slash] at hw
          simp only [Bool.and_eq_true] at hw
          exact hw.1
    · have hsl' : (p.getD e 0 == cSlash) = false := by simpa using hsl
      simp only [hsl', Bool.false_eq_true, if_false] at h
      cases h

omit ok okp in
theorem parent_or_empty_props (p : Text) :
    (wellEscaped p = true → wellEscaped (Path.parent_or_empty p) = true) ∧
    (PathText p → PathText (Path.parent_or_empty p)) := by
  unfold Path.parent_or_empty
  cases hp : Path.parent p with
  | some r => exact parent_props p r hp
  | none =>
    simp only []
    split
    · exact ⟨fun _ => by decide, fun _ => pathText_lit_slash⟩
    · exact ⟨fun _ => by decide, fun _ => by intro c hc; cases hc⟩

/-- the whole of a reference, normalised in place, is a valid reference -/
theorem whole_valid (a : Text) (ha : Matches G.reference a) :
    ∃ r, Ref.whole a = some r ∧ Matches G.reference r := by
  obtain ⟨h', e, hv, _⟩ := path_session_valid G ok okp a ha [.norm] (by intro op hop; simp at hop; subst hop; trivial)
  have e' : (Ref.path_mut a).normalize = some h' := by
    simp only [C10.pathRun, C10.pathStep] at e
    cases hp : (Ref.path_mut a).normalize with
    | none => rw [hp] at e; cases e
    | some x => rw [hp] at e; simp at e; rw [e]
  exact ⟨h'.buffer, by simp [Ref.whole, e'], hv⟩

/-- the path part never panics and returns a valid reference -/
theorem relative_body_total (we : Grammar.OkWE G) (a other : Text)
    (ha : Matches G.reference a) (ho : Matches G.reference other) :
    ∃ r, Ref.relative_body a other = some r ∧ Matches G.reference r := by
  obtain ⟨vA, wA⟩ := split_valid G ok a ha
  obtain ⟨vO, wO⟩ := split_valid G ok other ho
  have hpa := ref_path_recompose (split a) wA
  have hpo := ref_path_recompose (split other) wO
  have hqa := ref_query_recompose (split a) wA
  have hfa := ref_fragment_recompose (split a) wA
  rw [Lemmas.recompose_split] at hpa hpo hqa hfa
  have hwhole := whole_valid G ok okp a ha
  unfold Ref.relative_body
  simp only [hpa, hpo, hqa, hfa]
  split
  · exact hwhole
  have hptA : PathText (split a).path := pathText_of_wf _ wA
  have hptO : PathText (split other).path := pathText_of_wf _ wO
  have hweA : wellEscaped (split a).path = true := path_we G we _ vA
  have hweO : wellEscaped (split other).path = true := path_we G we _ vO
  obtain ⟨hpw, hpp⟩ := parent_or_empty_props (split other).path
  have hself : Path.normalized_segments (split a).path = nsegs (split a).path :=
    normalized_segments_eq _ hptA
  have hbase : Path.normalized_segments (Path.parent_or_empty (split other).path)
      = nsegs (Path.parent_or_empty (split other).path) := normalized_segments_eq _ (hpp hptO)
  rw [hself, hbase]
  split
  · exact hwhole
  have hws : ∀ s ∈ nsegs (split a).path, wellEscaped s = true := nsegs_we _ hweA
  have hwb : ∀ s ∈ nsegs (Path.parent_or_empty (split other).path), wellEscaped s = true :=
    nsegs_we _ (hpw hweO)
  rw [dropCommonPanics_false _ _ hws hwb]
  simp only [Bool.false_eq_true, if_false]
  split
  · exact hwhole
  -- the segments pushed are valid segments
  obtain ⟨_, hsegA⟩ := path_segments_valid G ok okp (split a).path (by
    have hgood := good_of_valid G ok okp (split a) vA
    have := valid_of_good G ok okp (split a) vA _ hgood
    -- a valid component list has a valid path in one of the productions
    cases hau : (split a).authority with
    | some x =>
      have := vA.pathAuth (by simp [hau])
      simp only [Grammar.path, alts, matches_alt]; exact .inl this
    | none =>
      cases hsc : (split a).scheme with
      | some sx =>
        rcases vA.pathScheme hau (by simp [hsc]) with h | h | h
        · simp only [Grammar.path, alts, matches_alt]; exact .inr (.inl h)
        · simp only [Grammar.path, alts, matches_alt]; exact .inr (.inr (.inr (.inl h)))
        · simp only [Grammar.path, alts, matches_alt]
          exact .inr (.inr (.inr (.inr (by rw [h]; exact (matches_pathEmpty G _).mpr rfl))))
      | none =>
        rcases vA.pathRel hau hsc with h | h | h
        · simp only [Grammar.path, alts, matches_alt]; exact .inr (.inl h)
        · simp only [Grammar.path, alts, matches_alt]; exact .inr (.inr (.inl h))
        · simp only [Grammar.path, alts, matches_alt]
          exact .inr (.inr (.inr (.inr (by rw [h]; exact (matches_pathEmpty G _).mpr rfl)))))
  have hselfOK : ∀ s ∈ nsegs (split a).path, Matches G.segment s :=
    fun s hs => hsegA s (nsegsOf_subset _ _ s hs)
  generalize hsb : Ref.dropCommon (nsegs (split a).path) (nsegs (Path.parent_or_empty (split other).path)) = sb
  have hss : ∀ s ∈ sb.1, Matches G.segment s := by
    intro s hs
    rw [← hsb] at hs
    exact hselfOK s ((dropCommon_subset _ _).1 s hs)
  obtain ⟨ss, bs, cm⟩ := sb
  simp only [] at hss ⊢
  obtain ⟨r1, e1, v1⟩ := pushAll_valid G ok okp (bs.map fun _ => [cDot, cDot]) [] (empty_reference_valid G ok okp)
    (by intro s hs; simp at hs; obtain ⟨_, _, rfl⟩ := hs; exact seg_dotdot G ok okp)
  obtain ⟨r2, e2, v2⟩ := pushAll_valid G ok okp ss r1 v1 hss
  simp only [Option.bind_eq_bind, e1, Option.bind_some, e2]
  -- the optional `clear`, then query and fragment
  have hfin : ∀ r3, Matches G.reference r3 → ∃ r,
      ((Ref.set_query r3 (split a).query).bind fun r4 => Ref.set_fragment r4 (split a).fragment) = some r ∧
        Matches G.reference r := by
    intro r3 v3
    obtain ⟨r4, e4, v4⟩ := C04.setter_step G ok okp r3 v3 (.query (split a).query) vA.query
    obtain ⟨r5, e5, v5⟩ := C04.setter_step G ok okp r4 v4 (.fragment (split a).fragment) vA.fragment
    simp only [C04.setStep] at e4 e5
    exact ⟨r5, by simp only [e4, Option.bind_some, e5], v5⟩
  have hclear : ∀ r2', Matches G.reference r2' → ∀ c : Bool, ∃ r,
      (if c = true then
          (((Ref.path_mut r2').clear).map (·.buffer)).bind fun r3 =>
            (Ref.set_query r3 (split a).query).bind fun r4 => Ref.set_fragment r4 (split a).fragment
        else (Ref.set_query r2' (split a).query).bind fun r4 => Ref.set_fragment r4 (split a).fragment) = some r ∧
        Matches G.reference r := by
    intro r2' v2' c
    cases c with
    | true =>
      obtain ⟨h', e, hv, _⟩ := path_session_valid G ok okp r2' v2' [.clear] (by intro op hop; simp at hop; subst hop; trivial)
      have e' : (Ref.path_mut r2').clear = some h' := by
        simp only [C10.pathRun, C10.pathStep] at e
        cases hp : (Ref.path_mut r2').clear with
        | none => rw [hp] at e; cases e
        | some x => rw [hp] at e; simp at e; rw [e]
      simp only [if_true, e', Option.map_some, Option.bind_some]
      exact hfin _ hv
    | false =>
      simp only [Bool.false_eq_true, if_false]
      exact hfin _ v2'
  -- the closing empty segment when nothing was pushed
  by_cases hem : Path.is_empty (Ref.path r2) = true
  · simp only [hem, if_true]
    obtain ⟨h', e, hv, _⟩ := path_session_valid G ok okp r2 v2 [.push []]
      (by intro op hop; simp at hop; subst hop; exact okp.seg_nil)
    have e' : (Ref.path_mut r2).push [] = some h' := by
      simp only [C10.pathRun, C10.pathStep] at e
      cases hp : (Ref.path_mut r2).push [] with
      | none => rw [hp] at e; cases e
      | some x => rw [hp] at e; simp at e; rw [e]
    simp only [e', Option.map_some, Option.bind_some]
    exact hclear _ hv _
  · have hem' : Path.is_empty (Ref.path r2) = false := by simpa using hem
    simp only [hem', Bool.false_eq_true, if_false, Option.bind_some]
    exact hclear _ v2 _

/-- **`relative_to` never panics and returns a valid reference** -/
theorem relative_to_total (oka : Grammar.OkAuth G) (we : Grammar.OkWE G) (a other : Text)
    (ha : Matches G.reference a) (ho : Matches G.reference other) :
    ∃ r, Ref.relative_to a other = some r ∧ Matches G.reference r := by
  obtain ⟨vA, wA⟩ := split_valid G ok a ha
  obtain ⟨vO, wO⟩ := split_valid G ok other ho
  have haa := ref_authority_recompose (split a) wA
  have hao := ref_authority_recompose (split other) wO
  rw [Lemmas.recompose_split] at haa hao
  have hwhole := whole_valid G ok okp a ha
  have hbody := relative_body_total G ok okp we a other ha ho
  unfold Ref.relative_to
  simp only [haa, hao]
  generalize Ref.scheme_opt a = sa
  generalize Ref.scheme_opt other = so
  have key : ∀ mm : Bool, ∃ r, (if mm = true then Ref.whole a else
      match (split a).authority, (split other).authority with
      | some x, some y =>
        match Cmp.authorityEq x y with
        | none => none
        | some false => Ref.whole a
        | some true => Ref.relative_body a other
      | none, none => Ref.relative_body a other
      | _, _ => Ref.whole a) = some r ∧ Matches G.reference r := by
    intro mm
    cases mm with
    | true => exact hwhole
    | false =>
      simp only [Bool.false_eq_true, if_false]
      cases hx : (split a).authority with
      | none =>
        cases hy : (split other).authority with
        | none => exact hbody
        | some y => exact hwhole
      | some x =>
        cases hy : (split other).authority with
        | none => exact hwhole
        | some y =>
          simp only [authorityEq_key G oka we x y (vA.authority x hx) (vO.authority y hy)]
          by_cases hk : authKey x = authKey y
          · simp only [hk, decide_true]
            exact hbody
          · simp only [hk, decide_false]
            exact hwhole
  cases sa <;> cases so <;> exact key _

end

end IrefVerif.Lemmas
