import IrefVerif.Lemmas.RelativeTotal
import IrefVerif.Props.C02

/-!
# `resolve` is total and returns a valid full URI/IRI

Independently of the equation with RFC 3986 §5.2 (C06, which has side conditions and an open
finding), the model of `RiRefBufImpl::resolve` never panics and leaves a valid *full* URI/IRI, for
every valid base and every valid reference of either family: every branch is a sequence of setter
calls (`C04.setter_step_spec`) and sessions on the path handle (`path_session_valid`).
-/

set_option linter.unusedSimpArgs false

namespace IrefVerif.Lemmas
open IrefVerif IrefVerif.RE IrefVerif.Spec IrefVerif.Model IrefVerif.Props

section
variable (G : Grammar) (ok : Grammar.Ok G) (okp : Grammar.OkPath G)
include ok okp

/-- valid, with a scheme -/
def FullV (w : Text) : Prop := Matches G.reference w ∧ (split w).scheme.isSome = true

omit ok okp in
theorem FullV.ref {w : Text} (h : FullV G w) : Matches G.reference w := h.1

/-- any text whose pieces are segments is a path -/
theorem path_of_segOK (p : Text) (h : SegOK G p) : Matches G.path p := by
  simp only [Grammar.path, alts, matches_alt]
  by_cases hp : p = []
  · exact .inr (.inr (.inr (.inr (by rw [hp]; exact (matches_pathEmpty G _).mpr rfl))))
  · by_cases habs : isAbs p = true
    · left
      cases p with
      | nil => exact absurd rfl hp
      | cons c q =>
        have hc : c = cSlash := by simpa [isAbs] using habs
        subst hc
        exact abempty_of_segOK G ok okp (segOK_tail G ok okp h)
    · exact .inr (.inr (.inr (.inl (rootless_of_segOK G ok okp h hp (by simpa using habs)))))

/-- the path of a valid reference is a path -/
theorem path_of_valid (P : Spec.Parts) (hv : ValidParts G P) : Matches G.path P.path :=
  path_of_segOK G ok okp _ (good_of_valid G ok okp P hv).segs

/-- `parent_or_empty` of a path whose pieces are segments has the same property -/
theorem parent_or_empty_segOK (p : Text) (h : SegOK G p) : SegOK G (Path.parent_or_empty p) := by
  unfold Path.parent_or_empty
  cases hp : Path.parent p with
  | none =>
    simp only []
    split
    · exact (good_root G ok okp false false).segs
    · exact segOK_nil G ok okp
  | some r =>
    simp only []
    unfold Path.parent at hp
    by_cases hem : Path.is_empty p = true
    · simp [hem] at hp
    · have hem' : Path.is_empty p = false := by simpa using hem
      simp only [hem', Bool.false_eq_true, if_false] at hp
      have hpne : p ≠ [] := by intro e; subst e; simp [Path.is_empty] at hem'
      have hle := lastSlashFrom_le p (p.length - 1)
      generalize Path.lastSlashFrom p (p.length - 1) = e at hle hp
      have hlt : e < p.length := by
        have : 0 < p.length := by cases p <;> simp_all
        omega
      by_cases hsl : (p.getD e 0 == cSlash) = true
      · simp only [hsl, if_true] at hp
        by_cases h0 : (e == 0) = true
        · simp only [h0, if_true, Option.some.injEq] at hp
          subst hp
          exact (good_root G ok okp false false).segs
        · have h0' : (e == 0) = false := by simpa using h0
          simp only [h0', Bool.false_eq_true, if_false] at hp
          by_cases h1 : (e == 1 && p.getD 0 0 == cSlash && p.getD 1 0 == cSlash) = true
          · simp only [h1, if_true, Option.some.injEq] at hp
            subst hp
            have := segOK_root G ok okp (segOK_snoc G ok okp (segOK_single G ok okp (seg_dot G ok okp)) okp.seg_nil)
            simpa using this
          · have h1' : (e == 1 && p.getD 0 0 == cSlash && p.getD 1 0 == cSlash) = false := by simpa using h1
            simp only [h1', Bool.false_eq_true, if_false, Option.some.injEq] at hp
            subst hp
            have hsp := split_at_slash p e hlt (by simpa using hsl)
            intro x hx
            apply h
            rw [hsp, splitSlash_mid]
            exact List.mem_append_left _ hx
      · have hsl' : (p.getD e 0 == cSlash) = false := by simpa using hsl
        simp only [hsl', Bool.false_eq_true, if_false] at hp
        cases hp

/-- one setter call that does not remove the scheme -/
theorem setter_keeps (w : Text) (hw : Matches G.reference w) (op : C04.SetOp) (hop : op.Valid G)
    (hk : op.keepsScheme = true) :
    ∃ w', C04.setStep w op = some w' ∧ Matches G.reference w' ∧
      ((split w).scheme.isSome = true → (split w').scheme.isSome = true) ∧
      (∀ s, op = .scheme (some s) → (split w').scheme.isSome = true) := by
  obtain ⟨e, v, sp⟩ := C04.setter_step_spec G ok okp w hw op hop
  refine ⟨_, e, (reference_iff G _).mpr ⟨_, rfl, v⟩, ?_, ?_⟩
  · intro hs
    rw [sp]
    cases op with
    | scheme x =>
      cases x with
      | some s => rfl
      | none => simp [C04.SetOp.keepsScheme] at hk
    | authority x => cases x <;> exact hs
    | path p => exact hs
    | query x => exact hs
    | fragment x => exact hs
  · intro s hs
    subst hs
    rw [sp]; rfl

/-- `remove_dot_segments` never panics, keeps validity and the scheme -/
theorem rds_total (w : Text) (hw : Matches G.reference w) :
    ∃ t, Ref.remove_dot_segments w = some t ∧ Matches G.reference t ∧ (split t).scheme = (split w).scheme ∧
      split t = { split w with path := (split t).path } := by
  obtain ⟨h1, e1, _, _⟩ := path_session_valid G ok okp w hw [.norm] (by intro op hop; simp at hop; subst hop; trivial)
  have en : (Ref.path_mut w).normalize = some h1 := by
    simp only [C10.pathRun, C10.pathStep] at e1
    cases hp : (Ref.path_mut w).normalize with
    | none => rw [hp] at e1; cases e1
    | some x => rw [hp] at e1; simp at e1; rw [e1]
  have tail : ∀ o : Bool, ∃ t, (if (o && !Path.is_empty h1.view) = true then (h1.push []).map (·.buffer)
      else if (h1.view == [cSlash, cDot, cSlash] || h1.view == [cDot, cSlash]) = true then (h1.clear).map (·.buffer)
      else some h1.buffer) = some t ∧ Matches G.reference t ∧ (split t).scheme = (split w).scheme ∧
        split t = { split w with path := (split t).path } := by
    intro o
    split
    · obtain ⟨h2, e2, v2, s2, _⟩ := path_session_valid G ok okp w hw [.norm, .push []]
        (by intro op hop; simp at hop; rcases hop with rfl | rfl <;> first | trivial | exact okp.seg_nil)
      have ep : h1.push [] = some h2 := by
        simp only [C10.pathRun, C10.pathStep, en] at e2
        cases hp : h1.push [] with
        | none => rw [hp] at e2; cases e2
        | some x => rw [hp] at e2; simp at e2; rw [e2]
      exact ⟨h2.buffer, by simp [ep], v2, by rw [s2], by rw [s2]⟩
    · split
      · obtain ⟨h2, e2, v2, s2, _⟩ := path_session_valid G ok okp w hw [.norm, .clear]
          (by intro op hop; simp at hop; rcases hop with rfl | rfl <;> trivial)
        have ep : h1.clear = some h2 := by
          simp only [C10.pathRun, C10.pathStep, en] at e2
          cases hp : h1.clear with
          | none => rw [hp] at e2; cases e2
          | some x => rw [hp] at e2; simp at e2; rw [e2]
        exact ⟨h2.buffer, by simp [ep], v2, by rw [s2], by rw [s2]⟩
      · obtain ⟨h2, e2, v2, s2, _⟩ := path_session_valid G ok okp w hw [.norm] (by intro op hop; simp at hop; subst hop; trivial)
        have : h2 = h1 := by
          simp only [C10.pathRun, C10.pathStep, en] at e2
          simpa using e2.symm
        subst this
        exact ⟨h2.buffer, rfl, v2, by rw [s2], by rw [s2]⟩
  unfold Ref.remove_dot_segments
  simp only [Option.bind_eq_bind, en, Option.bind_some]
  exact tail _

/-- the path accessor of the model on a valid reference returns a valid path -/
theorem ref_path_valid (w : Text) (hw : Matches G.reference w) : Matches G.path (Ref.path w) := by
  obtain ⟨hv, wf⟩ := split_valid G ok w hw
  have := ref_path_recompose (split w) wf
  rw [Lemmas.recompose_split] at this
  rw [this]
  exact path_of_valid G ok okp _ hv

/-- the tail of `mergedPath` on a valid merged buffer -/
theorem merged_tail_total (pb2 : Text) (hv : Matches G.reference pb2) (p : Text) (hp : Matches G.path p) :
    ∃ r, (((Ref.path_mut pb2).symbolic_append (Path.segmentList p)).bind fun h =>
      h.normalize.bind fun h =>
        if (h.view == [cSlash, cDot, cSlash] || h.view == [cDot, cSlash]) = true then
          h.clear.bind fun h => some (Ref.path h.buffer)
        else some (Ref.path h.buffer)) = some r ∧ Matches G.path r := by
  have hops2 : ∀ op ∈ [C10.PathOp.sapp p, C10.PathOp.norm], PathOp.Valid G op := by
    intro op hop; simp at hop; rcases hop with rfl | rfl
    · exact hp
    · trivial
  have hops3 : ∀ op ∈ [C10.PathOp.sapp p, C10.PathOp.norm, C10.PathOp.clear], PathOp.Valid G op := by
    intro op hop; simp at hop; rcases hop with rfl | rfl | rfl
    · exact hp
    · trivial
    · trivial
  obtain ⟨h2, e2, v2, _⟩ := path_session_valid G ok okp pb2 hv _ hops2
  simp only [C10.pathRun, C10.pathStep] at e2
  cases ha : (Ref.path_mut pb2).symbolic_append (Path.segmentList p) with
  | none => rw [ha] at e2; cases e2
  | some h1 =>
    rw [ha] at e2
    simp only [] at e2
    simp only [Option.bind_some]
    cases hn : h1.normalize with
    | none => rw [hn] at e2; cases e2
    | some hx =>
      rw [hn] at e2
      simp only [Option.some.injEq] at e2
      subst e2
      simp only [Option.bind_some]
      split
      · obtain ⟨h3, e3, v3, _⟩ := path_session_valid G ok okp pb2 hv _ hops3
        simp only [C10.pathRun, C10.pathStep, ha, hn] at e3
        cases hc : hx.clear with
        | none => rw [hc] at e3; cases e3
        | some hy =>
          rw [hc] at e3
          simp only [Option.some.injEq] at e3
          subst e3
          simp only [Option.bind_some]
          exact ⟨_, rfl, ref_path_valid G ok okp _ v3⟩
      · exact ⟨_, rfl, ref_path_valid G ok okp _ v2⟩

/-- **`mergedPath` never panics and returns a valid path** -/
theorem mergedPath_total (base : Text) (hb : FullV G base) (p : Text) (hp : Matches G.path p) :
    ∃ r, Ref.mergedPath base (Path.segmentList p) = some r ∧ Matches G.path r := by
  obtain ⟨vB, wB⟩ := split_valid G ok base hb.1
  obtain ⟨sb, hsb⟩ := Option.isSome_iff_exists.mp hb.2
  have hsch : Ref.scheme base = sb := by
    have := ref_scheme_full (split base) wB sb hsb
    rwa [Lemmas.recompose_split] at this
  have hauth : Ref.authority base = (split base).authority := by
    have := ref_authority_recompose (split base) wB
    rwa [Lemmas.recompose_split] at this
  have hpath : Ref.path base = (split base).path := by
    have := ref_path_recompose (split base) wB
    rwa [Lemmas.recompose_split] at this
  unfold Ref.mergedPath
  rw [hsch, hauth, hpath]
  -- `from_scheme`
  have v0 : ValidParts G { scheme := some sb, authority := none, path := [], query := none, fragment := none } :=
    { scheme := fun s hs => by simp only [Option.some.injEq] at hs; subst hs; exact vB.scheme sb hsb
      authority := fun a ha => by simp at ha
      pathAuth := fun h => by simp at h
      pathScheme := fun _ _ => .inr (.inr rfl)
      pathRel := fun _ h => by simp at h
      query := fun q hq => by simp at hq
      fragment := fun f hf => by simp at hf }
  have hQ0 : Ref.from_scheme sb = recompose { scheme := some sb, authority := none, path := [], query := none, fragment := none } := by
    rw [recompose_eq]; simp [Ref.from_scheme, schemeText, authText, queryText, fragText]
  have m0 : Matches G.reference (Ref.from_scheme sb) := by
    rw [hQ0]; exact (reference_iff G _).mpr ⟨_, rfl, v0⟩
  obtain ⟨pb1, e1, m1⟩ := C04.setter_step G ok okp _ m0 (.authority (split base).authority) vB.authority
  simp only [C04.setStep] at e1
  simp only [Option.bind_eq_bind, e1, Option.bind_some]
  have hgood := good_of_valid G ok okp (split base) vB
  by_cases hc : ((split base).authority.isSome && Path.is_empty (split base).path) = true
  · simp only [hc, if_true]
    obtain ⟨pb2, e2, m2⟩ := C04.setter_step G ok okp pb1 m1 (.path [cSlash])
      (path_of_segOK G ok okp _ (good_root G ok okp false false).segs)
    simp only [C04.setStep] at e2
    rw [e2]
    simp only [Option.bind_some]
    exact merged_tail_total G ok okp pb2 m2 p hp
  · have hc' : ((split base).authority.isSome && Path.is_empty (split base).path) = false := by simpa using hc
    simp only [hc', Bool.false_eq_true, if_false]
    obtain ⟨t, e2, m2⟩ := C04.setter_step G ok okp pb1 m1 (.path (Path.parent_or_empty (split base).path))
      (path_of_segOK G ok okp _ (parent_or_empty_segOK G ok okp _ hgood.segs))
    simp only [C04.setStep] at e2
    rw [e2]
    simp only [Option.bind_some]
    obtain ⟨h1, e3, m3, _⟩ := path_session_valid G ok okp t m2 [.norm] (by intro op hop; simp at hop; subst hop; trivial)
    have en : (Ref.path_mut t).normalize = some h1 := by
      simp only [C10.pathRun, C10.pathStep] at e3
      cases hq : (Ref.path_mut t).normalize with
      | none => rw [hq] at e3; cases e3
      | some x => rw [hq] at e3; simp at e3; rw [e3]
    rw [en]
    simp only [Option.map_some, Option.bind_some]
    exact merged_tail_total G ok okp h1.buffer m3 p hp

omit okp in
theorem fullV_of (w : Text) (h : Matches G.reference w) (hs : (split w).scheme.isSome = true) : Matches G.full w :=
  (C02.full_iff_scheme G ok w).mpr ⟨h, hs⟩

/-- **`resolve` never panics and returns a valid full URI/IRI** -/
theorem resolve_total (base r : Text) (hb : Matches G.full base) (hr : Matches G.reference r) :
    ∃ t, Ref.resolve r base = some t ∧ Matches G.full t := by
  have hbF : FullV G base := (C02.full_iff_scheme G ok base).mp hb
  obtain ⟨vB, wB⟩ := split_valid G ok base hbF.1
  obtain ⟨vR, wR⟩ := split_valid G ok r hr
  obtain ⟨sb, hsb⟩ := Option.isSome_iff_exists.mp hbF.2
  have hsch : Ref.scheme base = sb := by
    have := ref_scheme_full (split base) wB sb hsb
    rwa [Lemmas.recompose_split] at this
  have hauth : Ref.authority base = (split base).authority := by
    have := ref_authority_recompose (split base) wB
    rwa [Lemmas.recompose_split] at this
  have hpathB : Ref.path base = (split base).path := by
    have := ref_path_recompose (split base) wB
    rwa [Lemmas.recompose_split] at this
  have hqB : Ref.query base = (split base).query := by
    have := ref_query_recompose (split base) wB
    rwa [Lemmas.recompose_split] at this
  have hrp := reference_parts_recompose (split r) wR
  rw [Lemmas.recompose_split] at hrp
  unfold Ref.resolve
  simp only [hrp, rangesOf, Option.isSome_map, hsch, hauth, hpathB, hqB]
  by_cases hs : (split r).scheme.isSome = true
  · -- the reference has a scheme
    simp only [hs, if_true]
    obtain ⟨t, e, v, sc, _⟩ := rds_total G ok okp r hr
    exact ⟨t, e, fullV_of G ok t v (by rw [sc]; exact hs)⟩
  · have hs' : (split r).scheme.isSome = false := by simpa using hs
    simp only [hs', Bool.false_eq_true, if_false]
    obtain ⟨b1, e1, v1, _, k1⟩ := setter_keeps G ok okp r hr (.scheme (some sb)) (by
      intro s hss; simp only [Option.some.injEq] at hss; subst hss; exact vB.scheme sb hsb) rfl
    have s1 := k1 sb rfl
    simp only [C04.setStep] at e1
    simp only [Option.bind_eq_bind, e1, Option.bind_some]
    by_cases ha : (split r).authority.isSome = true
    · simp only [ha, if_true]
      obtain ⟨t, e, v, sc, _⟩ := rds_total G ok okp b1 v1
      exact ⟨t, e, fullV_of G ok t v (by rw [sc]; exact s1)⟩
    · have ha' : (split r).authority.isSome = false := by simpa using ha
      simp only [ha', Bool.false_eq_true, if_false]
      -- the base's authority is set in every remaining branch
      obtain ⟨b2, e2, v2, k2, _⟩ := setter_keeps G ok okp b1 v1 (.authority (split base).authority) vB.authority rfl
      have s2 := k2 s1
      simp only [C04.setStep] at e2
      by_cases hemp : (Path.is_relative (Ref.path b1) && Path.is_empty (Ref.path b1)) = true
      · simp only [hemp, if_true, e2, Option.bind_some]
        obtain ⟨b3, e3, v3, k3, _⟩ := setter_keeps G ok okp b2 v2 (.path (split base).path)
          (path_of_valid G ok okp _ vB) rfl
        have s3 := k3 s2
        simp only [C04.setStep] at e3
        simp only [e3, Option.bind_some]
        split
        · obtain ⟨b4, e4, v4, k4, _⟩ := setter_keeps G ok okp b3 v3 (.query (split base).query) vB.query rfl
          simp only [C04.setStep] at e4
          exact ⟨b4, e4, fullV_of G ok b4 v4 (k4 s3)⟩
        · exact ⟨b3, rfl, fullV_of G ok b3 v3 s3⟩
      · have hemp' : (Path.is_relative (Ref.path b1) && Path.is_empty (Ref.path b1)) = false := by simpa using hemp
        simp only [hemp', Bool.false_eq_true, if_false]
        by_cases habs : Path.is_absolute (Ref.path b1) = true
        · simp only [habs, if_true, e2, Option.bind_some]
          obtain ⟨t, e, v, sc, _⟩ := rds_total G ok okp b2 v2
          exact ⟨t, e, fullV_of G ok t v (by rw [sc]; exact s2)⟩
        · have habs' : Path.is_absolute (Ref.path b1) = false := by simpa using habs
          simp only [habs', Bool.false_eq_true, if_false, e2, Option.bind_some]
          obtain ⟨p, em, vp⟩ := mergedPath_total G ok okp base hbF (Ref.path b2) (ref_path_valid G ok okp b2 v2)
          rw [em]
          simp only [Option.bind_some]
          obtain ⟨b3, e3, v3, k3, _⟩ := setter_keeps G ok okp b2 v2 (.path p) vp rfl
          simp only [C04.setStep] at e3
          exact ⟨b3, e3, fullV_of G ok b3 v3 (k3 s2)⟩

end

end IrefVerif.Lemmas
