import IrefVerif.Lemmas.Scan
import IrefVerif.Lemmas.Split
import IrefVerif.Model.Cmp

/-!
The one-pass decomposition of `parse.rs` (`reference_parts`, `parts`) and the individual
`find_*` scanners agree with the Appendix-B decomposition `Spec.split`, for every string that
does not begin with `:` (in particular for every valid URI / IRI reference).
-/

set_option linter.unusedSimpArgs false

namespace IrefVerif.Lemmas
open IrefVerif.Spec IrefVerif.Model.Parse

theorem notIn_nCSQH : notIn [cColon, cSlash, cQuest, cHash] = nCSQH := by
  funext c; simp [notIn, nCSQH, List.contains, List.elem]
  cases (c == cColon) <;> cases (c == cSlash) <;> cases (c == cQuest) <;> cases (c == cHash) <;> rfl

theorem notIn_nSQH : notIn [cSlash, cQuest, cHash] = nSQH := by
  funext c; simp [notIn, nSQH, List.contains, List.elem]
  cases (c == cSlash) <;> cases (c == cQuest) <;> cases (c == cHash) <;> rfl

theorem notIn_nQH : notIn [cQuest, cHash] = nQH := by
  funext c; simp [notIn, nQH, List.contains, List.elem]
  cases (c == cQuest) <;> cases (c == cHash) <;> rfl

def nH (c : Nat) : Bool := !(c == cHash)

theorem notIn_nH : notIn [cHash] = nH := by
  funext c; simp [notIn, nH, List.contains, List.elem]
  cases (c == cHash) <;> rfl

theorem spanP_eq (p : Nat → Bool) (l : Text) :
    spanP p l = (l.take (spanLen p l), l.drop (spanLen p l)) := by
  rw [← spanP_fst_eq_take, ← spanP_snd_eq_drop]

/-! ### scheme -/

/-- when the first delimiter is `:`, the text at the span boundary is that `:` -/
theorem fdc_drop {w : Text} (h : fdc w = true) :
    w.drop (spanLen nCSQH w) = cColon :: w.drop (spanLen nCSQH w + 1) := by
  induction w with
  | nil => simp [fdc] at h
  | cons c w ih =>
    simp only [fdc] at h
    by_cases hc : (c == cColon) = true
    · have : c = cColon := by simpa using hc
      subst this
      simp [spanLen, nCSQH]
    · have hc' : (c == cColon) = false := by simpa using hc
      simp only [hc', Bool.false_eq_true, if_false] at h
      by_cases hd : (c == cSlash || c == cQuest || c == cHash) = true
      · simp [hd] at h
      · have hd' : (c == cSlash || c == cQuest || c == cHash) = false := by simpa using hd
        simp only [hd', Bool.false_eq_true, if_false] at h
        have hn : nCSQH c = true := by
          simp only [Bool.or_eq_false_iff] at hd'
          simp [nCSQH, hc', hd'.1.1, hd'.1.2, hd'.2]
        simp only [spanLen, hn, if_true, List.drop_succ_cons]
        exact ih h

theorem fdc_false_head {w : Text} (h : fdc w = false) :
    ∀ c r, w.drop (spanLen nCSQH w) = c :: r → c ≠ cColon := by
  induction w with
  | nil => simp
  | cons c w ih =>
    simp only [fdc] at h
    by_cases hc : (c == cColon) = true
    · simp [hc] at h
    · have hc' : (c == cColon) = false := by simpa using hc
      simp only [hc', Bool.false_eq_true, if_false] at h
      by_cases hd : (c == cSlash || c == cQuest || c == cHash) = true
      · have hn : nCSQH c = false := by
          simp only [nCSQH, hc', Bool.false_or, hd, Bool.not_true]
        intro d r hdr
        simp only [spanLen, hn, Bool.false_eq_true, if_false, List.drop_zero] at hdr
        injection hdr with h1 _
        subst h1
        simpa using hc'
      · have hd' : (c == cSlash || c == cQuest || c == cHash) = false := by simpa using hd
        simp only [hd', Bool.false_eq_true, if_false] at h
        have hn : nCSQH c = true := by
          simp only [Bool.or_eq_false_iff] at hd'
          simp [nCSQH, hc', hd'.1.1, hd'.1.2, hd'.2]
        simp only [spanLen, hn, if_true, List.drop_succ_cons]
        exact ih h

theorem splitScheme_of_fdc_true {w : Text} (hw : w.head? ≠ some cColon) (h : fdc w = true) :
    splitScheme w = (some (w.take (spanLen nCSQH w)), w.drop (spanLen nCSQH w + 1)) := by
  unfold splitScheme
  rw [notIn_nCSQH, spanP_eq, fdc_drop h]
  simp only
  -- the scheme span is non-empty because `w` does not begin with `:`
  cases hk : w.take (spanLen nCSQH w) with
  | nil =>
    exfalso
    have h0 : spanLen nCSQH w = 0 ∨ w = [] := by
      rcases List.take_eq_nil_iff.mp hk with h | h
      · exact .inl h
      · exact .inr h
    rcases h0 with h0 | h0
    · have := fdc_drop h
      rw [h0] at this
      simp only [List.drop_zero] at this
      rw [this] at hw
      simp at hw
    · subst h0; simp [fdc] at h
  | cons a s => rfl

theorem splitScheme_of_fdc_false {w : Text} (h : fdc w = false) : splitScheme w = (none, w) := by
  unfold splitScheme
  rw [notIn_nCSQH, spanP_eq]
  simp only
  have hh := fdc_false_head h
  split
  · rename_i s rest a s' c rest' heq1 heq2
    split
    · rename_i hc
      exfalso
      exact hh c rest' heq2 (by simpa using hc)
    · rfl
  · rfl

/-! ### authority -/

theorem splitAuthority_of_startsSS {r : Text} (h : startsSS r = true) :
    splitAuthority r = (some ((r.drop 2).take (spanLen nSQH (r.drop 2))),
      r.drop (2 + spanLen nSQH (r.drop 2))) := by
  unfold splitAuthority
  match r, h with
  | a :: b :: rest, h =>
    simp only [startsSS] at h
    simp only [h, if_true, notIn_nSQH, spanP_eq, List.drop_succ_cons, List.drop_zero]
    congr 1
    rw [show 2 + spanLen nSQH rest = spanLen nSQH rest + 1 + 1 by omega]
    simp [List.drop_succ_cons]

theorem splitAuthority_of_not {r : Text} (h : startsSS r = false) : splitAuthority r = (none, r) := by
  unfold splitAuthority
  match r, h with
  | [], _ => rfl
  | [_], _ => rfl
  | a :: b :: rest, h =>
    simp only [startsSS] at h
    simp [h]

end IrefVerif.Lemmas

namespace IrefVerif.Lemmas
open IrefVerif.Spec IrefVerif.Model.Parse

theorem slice_eq (w : Text) (a n : Nat) : slice w (a, a + n) = (w.drop a).take n := by
  simp [slice, List.drop_take]

/-! ### path, query, fragment: the part after the authority -/

/-- what `split` does after the authority, as a function of the remaining text -/
def tailSplit (r : Text) : Text × Option Text × Option Text :=
  let p := spanP (notIn [cQuest, cHash]) r
  let q := splitQuery p.2
  (p.1, q.1, splitFragment q.2)

/-- what `reference_parts`/`parts` do after the authority, from offset `o` -/
def tailModel (w : Text) (o : Nat) : Text × Option Text × Option Text :=
  let pe := Model.Parse.path w o
  let q := Model.Parse.query w pe
  let f := Model.Parse.fragment w q.2
  (slice w (o, pe),
   (match q.1 with | true => some (slice w (pe + 1, q.2)) | false => none),
   (match f.1 with | true => some (slice w (q.2 + 1, f.2)) | false => none))

theorem drop_length_slice (w : Text) (a : Nat) : slice w (a, w.length) = w.drop a := by
  simp [slice]

theorem drop_cons_tail {w : Text} {k : Nat} {c : Nat} {rest : Text} (h : w.drop k = c :: rest) :
    rest = w.drop (k + 1) := by
  have := congrArg List.tail h
  simp only [List.tail_drop, List.tail_cons] at this
  exact this.symm

theorem tail_agree (w : Text) (o : Nat) : tailModel w o = tailSplit (w.drop o) := by
  unfold tailModel tailSplit
  have hpath : Model.Parse.path w o = o + spanLen nQH (w.drop o) := rfl
  rw [hpath, notIn_nQH, spanP_eq]
  simp only
  generalize hn : spanLen nQH (w.drop o) = n
  rw [slice_eq w o n]
  have hd : (w.drop o).drop n = w.drop (o + n) := by simp [List.drop_drop]
  rw [hd]
  cases hr : w.drop (o + n) with
  | nil =>
    simp only [Model.Parse.query, hr, splitQuery, Model.Parse.fragment, splitFragment,
      Bool.false_eq_true, if_false]
  | cons c rest =>
    have hrest : rest = w.drop (o + n + 1) := drop_cons_tail hr
    by_cases hc : (c == cQuest) = true
    · have hnh : (fun c => c != cHash) = nH := by funext x; simp [nH, bne]
      simp only [Model.Parse.query, hr, hc, if_true, splitQuery, hnh, notIn_nH, spanP_eq]
      generalize hm : spanLen nH rest = m
      have hq : slice w (o + n + 1, o + n + 1 + m) = rest.take m := by
        rw [slice_eq, ← hrest]
      rw [hq]
      have hd2 : rest.drop m = w.drop (o + n + 1 + m) := by
        rw [hrest, List.drop_drop]
      simp only [Model.Parse.fragment, hd2]
      cases hr2 : w.drop (o + n + 1 + m) with
      | nil => simp [splitFragment]
      | cons d rest2 =>
        have hrest2 : rest2 = w.drop (o + n + 1 + m + 1) := drop_cons_tail hr2
        by_cases hdh : (d == cHash) = true
        · simp only [hdh, if_true, splitFragment, drop_length_slice, ← hrest2]
        · have hdh' : (d == cHash) = false := by simpa using hdh
          simp [hdh', splitFragment]
    · have hc' : (c == cQuest) = false := by simpa using hc
      simp only [Model.Parse.query, hr, hc', Bool.false_eq_true, if_false, splitQuery,
        Model.Parse.fragment]
      by_cases hdh : (c == cHash) = true
      · simp only [hdh, if_true, splitFragment, drop_length_slice, ← hrest]
      · have hdh' : (c == cHash) = false := by simpa using hdh
        simp [hdh', splitFragment]

end IrefVerif.Lemmas

namespace IrefVerif.Lemmas
open IrefVerif.Spec IrefVerif.Model.Parse

/-- the texts of `reference_parts` -/
def modelRefParts (w : Text) : Spec.Parts :=
  let r := reference_parts w 0
  { scheme := sliceO w r.scheme, authority := sliceO w r.authority, path := slice w r.path,
    query := sliceO w r.query, fragment := sliceO w r.fragment }

theorem sap_eq (w : Text) : scheme_authority_or_path w 0 = sapGo .start w := by
  simp [scheme_authority_or_path]

theorem ap_eq (w : Text) (i : Nat) :
    authority_or_path w i = ((apGo .start (w.drop i)).1, i + (apGo .start (w.drop i)).2) := rfl

theorem split_eq_tail (w : Text) :
    split w = { scheme := (splitScheme w).1, authority := (splitAuthority (splitScheme w).2).1,
                path := (tailSplit (splitAuthority (splitScheme w).2).2).1,
                query := (tailSplit (splitAuthority (splitScheme w).2).2).2.1,
                fragment := (tailSplit (splitAuthority (splitScheme w).2).2).2.2 } := rfl

theorem sliceO_ite (w : Text) (b : Bool) (r : Range) :
    sliceO w (if b = true then some r else none) = (match b with | true => some (slice w r) | false => none) := by
  cases b <;> rfl

/-- the tail of `reference_parts` from offset `o` is `tailModel` -/
theorem model_tail (w : Text) (o : Nat) :
    (slice w (o, o + spanLen nQH (w.drop o)),
     sliceO w (if (query w (o + spanLen nQH (w.drop o))).1 = true
               then some (o + spanLen nQH (w.drop o) + 1, (query w (o + spanLen nQH (w.drop o))).2) else none),
     sliceO w (if (fragment w (query w (o + spanLen nQH (w.drop o))).2).1 = true
               then some ((query w (o + spanLen nQH (w.drop o))).2 + 1,
                          (fragment w (query w (o + spanLen nQH (w.drop o))).2).2) else none))
    = tailModel w o := by
  simp only [sliceO_ite]
  rfl

/-- **`reference_parts` = Appendix B**, for every text that does not begin with `:` -/
theorem modelRefParts_eq_split (w : Text) (hw : w.head? ≠ some cColon) : modelRefParts w = split w := by
  rw [split_eq_tail]
  unfold modelRefParts reference_parts
  rw [sap_eq, sapGo_start]
  by_cases h1 : fdc w = true
  · -- a scheme
    rw [splitScheme_of_fdc_true hw h1]
    simp only [h1, if_true, ap_eq, apGo_start]
    generalize hk : spanLen nCSQH w = k
    by_cases h2 : startsSS (w.drop (k + 1)) = true
    · rw [splitAuthority_of_startsSS h2]
      simp only [h2, if_true, Model.Parse.path]
      have hnq : (fun c => !(c == cQuest || c == cHash)) = nQH := rfl
      simp only [hnq]
      generalize hm : spanLen nSQH ((w.drop (k + 1)).drop 2) = m
      have hd : (w.drop (k + 1)).drop (2 + m) = w.drop (k + 1 + (2 + m)) := by simp [List.drop_drop]
      rw [hd, ← tail_agree]
      have := model_tail w (k + 1 + (2 + m))
      simp only [← this, sliceO, Option.map, slice, List.drop_zero]
      have ha : (w.take (k + 1 + (2 + m))).drop (k + 3) = ((w.drop (k + 1)).drop 2).take m := by
        rw [List.drop_drop, List.drop_take]
        congr 1 <;> omega
      simp [ha]
    · have h2' : startsSS (w.drop (k + 1)) = false := by simpa using h2
      rw [splitAuthority_of_not h2']
      simp only [h2', Bool.false_eq_true, if_false]
      rw [← tail_agree]
      have := model_tail w (k + 1)
      simp only [← this, sliceO, Option.map, slice, List.drop_zero]
  · have h1' : fdc w = false := by simpa using h1
    rw [splitScheme_of_fdc_false h1']
    simp only [h1', Bool.false_eq_true, if_false]
    by_cases h2 : startsSS w = true
    · rw [splitAuthority_of_startsSS h2]
      simp only [h2, if_true, Model.Parse.path]
      have hnq : (fun c => !(c == cQuest || c == cHash)) = nQH := rfl
      simp only [hnq]
      generalize hm : spanLen nSQH (w.drop 2) = m
      rw [← tail_agree]
      have := model_tail w (2 + m)
      simp only [← this, sliceO, Option.map, slice]
      have ha : (w.take (2 + m)).drop 2 = (w.drop 2).take m := by
        rw [List.drop_take]; congr 1; omega
      simp [ha]
    · have h2' : startsSS w = false := by simpa using h2
      rw [splitAuthority_of_not h2']
      simp only [h2', Bool.false_eq_true, if_false]
      have := tail_agree w 0
      simp only [List.drop_zero] at this
      rw [← this]
      have := model_tail w 0
      simp only [List.drop_zero, Nat.zero_add] at this
      simp only [← this, sliceO, Option.map]

end IrefVerif.Lemmas
