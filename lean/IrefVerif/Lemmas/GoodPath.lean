import IrefVerif.Lemmas.SetterValid
import IrefVerif.Lemmas.MergeSegs

/-!
# Valid paths, segment by segment

A path is valid in its context exactly when every `/`-separated piece is a `segment` and the
three context rules hold: behind an authority it is empty or absolute; without one it does not
begin with `//`; at the very start of a relative reference its first segment has no `:`.
`GoodPath` states this on the text; `valid_of_good` and `good_of_valid` connect it to the five
path productions of the grammar.  The path-handle operations are then shown to preserve
`GoodPath` (C04: editing through the handle never breaks well-formedness).
-/

set_option linter.unusedSimpArgs false

namespace IrefVerif.Lemmas
open IrefVerif IrefVerif.RE IrefVerif.Spec IrefVerif.Model

def SegOK (G : Grammar) (p : Text) : Prop := ∀ s ∈ splitSlash p, Matches G.segment s

structure GoodPath (G : Grammar) (hasAuth atStart : Bool) (p : Text) : Prop where
  segs : SegOK G p
  pt : PathText p
  auth : hasAuth = true → p = [] ∨ isAbs p = true
  noSS : hasAuth = false → startsSS p = false
  noColon : atStart = true → fsc p = false

section
variable (G : Grammar) (ok : Grammar.Ok G) (okp : Grammar.OkPath G)
include ok okp

theorem seg_noSlash {u : Text} (h : Matches G.segment u) : cSlash ∉ u := by
  by_cases hu : u = []
  · subst hu; simp
  · exact okp.segNz_noSlash u (okp.segNz_of_seg u h hu)

theorem seg_dot : Matches G.segment [cDot] := okp.segNz_seg _ (okp.segNzNc_segNz _ okp.dot)

theorem seg_dotdot : Matches G.segment [cDot, cDot] :=
  okp.seg_append [cDot] [cDot] (seg_dot G ok okp) (seg_dot G ok okp)

theorem seg_pathText {u : Text} (h : Matches G.segment u) : PathText u := by
  by_cases hu : u = []
  · subst hu; intro c hc; cases hc
  · intro c hc
    have := matches_excl ok.segNz (okp.segNz_of_seg u h hu) c hc
    simp only [List.mem_cons, List.mem_nil_iff, or_false, not_or] at this
    exact ⟨by simpa [cQuest] using this.2.1, by simpa [cHash] using this.2.2⟩

/-! ## from the productions to the segments -/

theorem segOK_seg_abempty {u v : Text} (hu : Matches G.segment u) (hv : Matches G.pathAbempty v)
    (ih : SegOK G v) : SegOK G (u ++ v) := by
  have hus := seg_noSlash G ok okp hu
  rcases abempty_head G hv with rfl | ⟨r, rfl⟩
  · intro s hs
    rw [List.append_nil, splitSlash_noslash u hus] at hs
    simp at hs; subst hs; exact hu
  · intro s hs
    rw [splitSlash_mid, splitSlash_noslash u hus] at hs
    rcases List.mem_append.mp hs with h | h
    · simp at h; subst h; exact hu
    · apply ih
      simp only [splitSlash, beq_self_eq_true, if_true]
      exact List.mem_cons_of_mem _ h

theorem segOK_of_abempty {p : Text} (h : Matches G.pathAbempty p) : SegOK G p := by
  unfold Grammar.pathAbempty at h
  generalize hr : star (seq (ch 0x2F) G.segment) = r at h
  induction h with
  | eps => cases hr
  | cls _ => cases hr
  | seq _ _ => cases hr
  | altL _ => cases hr
  | altR _ => cases hr
  | starNil =>
    intro s hs
    simp [splitSlash] at hs; subst hs; exact okp.seg_nil
  | @starCons a u v h1 h2 _ ih2 =>
    cases hr
    obtain ⟨x, y, rfl, hx, hy⟩ := matches_seq.mp h1
    have hx' := matches_ch.mp hx
    subst hx'
    have hv : Matches G.pathAbempty v := h2
    have := segOK_seg_abempty G ok okp hy hv (ih2 rfl)
    intro s hs
    have e : [0x2F] ++ y ++ v = cSlash :: (y ++ v) := by simp [cSlash]
    rw [e] at hs
    simp only [splitSlash, beq_self_eq_true, if_true] at hs
    rcases List.mem_cons.mp hs with h | h
    · subst h; exact okp.seg_nil
    · exact this s h

theorem segOK_of_rootless {p : Text} (h : Matches G.pathRootless p) : SegOK G p := by
  obtain ⟨a, b, rfl, ha, hb⟩ := matches_seq.mp h
  exact segOK_seg_abempty G ok okp (okp.segNz_seg a ha) hb (segOK_of_abempty G ok okp hb)

theorem segOK_nil : SegOK G [] := by
  intro s hs
  simp [splitSlash] at hs; subst hs; exact okp.seg_nil

theorem segOK_of_absolute {p : Text} (h : Matches G.pathAbsolute p) : SegOK G p :=
  segOK_of_abempty G ok okp (abempty_of_absolute G okp h)

/-- the path of a valid component list is good in its context -/
theorem good_of_valid (P : Spec.Parts) (hv : ValidParts G P) :
    GoodPath G P.authority.isSome (P.scheme.isNone && P.authority.isNone) P.path := by
  have wf := wf_of_valid G ok P hv
  refine ⟨?_, pathText_of_wf _ wf, ?_, ?_, ?_⟩
  · cases ha : P.authority with
    | some a => exact segOK_of_abempty G ok okp (hv.pathAuth (by simp [ha]))
    | none =>
      cases hs : P.scheme with
      | some s =>
        rcases hv.pathScheme ha (by simp [hs]) with h | h | h
        · exact segOK_of_absolute G ok okp h
        · exact segOK_of_rootless G ok okp h
        · rw [h]; exact segOK_nil G ok okp
      | none =>
        rcases hv.pathRel ha hs with h | h | h
        · exact segOK_of_absolute G ok okp h
        · exact segOK_of_rootless G ok okp (rootless_of_noscheme G okp h)
        · rw [h]; exact segOK_nil G ok okp
  · intro ha
    rcases wf.abempty ha with h | ⟨r, h⟩
    · exact .inl h
    · right; rw [h]; simp [isAbs]
  · intro ha
    apply wf.noSS
    cases hau : P.authority with
    | none => rfl
    | some a => simp [hau] at ha
  · intro hst
    simp only [Bool.and_eq_true, Option.isNone_iff_eq_none] at hst
    exact wf.noColon hst.1 hst.2

/-! ## from the segments to the productions -/

theorem abempty_of_list : ∀ (L : List Text), L ≠ [] → (∀ s ∈ L, Matches G.segment s) →
    Matches G.pathAbempty (cSlash :: joinSlash L) := by
  intro L
  induction L with
  | nil => intro h; exact absurd rfl h
  | cons s L ih =>
    intro _ hall
    cases L with
    | nil =>
      have := abempty_cons_seg G okp (hall s List.mem_cons_self) (Matches.starNil (a := seq (ch 0x2F) G.segment))
      simpa [joinSlash] using this
    | cons t L' =>
      have h2 := ih (by simp) (fun x hx => hall x (List.mem_cons_of_mem _ hx))
      have := abempty_cons_seg G okp (hall s List.mem_cons_self) h2
      simpa [joinSlash] using this

theorem abempty_of_segOK {q : Text} (h : SegOK G q) : Matches G.pathAbempty (cSlash :: q) := by
  have := abempty_of_list G ok okp (splitSlash q) (splitSlash_ne_nil q) h
  rwa [joinSlash_splitSlash] at this

theorem segOK_tail {q : Text} (h : SegOK G (cSlash :: q)) : SegOK G q := by
  intro s hs
  apply h
  simp only [splitSlash, beq_self_eq_true, if_true]
  exact List.mem_cons_of_mem _ hs

theorem rootless_of_segOK {p : Text} (h : SegOK G p) (hne : p ≠ []) (hrel : isAbs p = false) :
    Matches G.pathRootless p := by
  have hj := joinSlash_splitSlash p
  cases hs : splitSlash p with
  | nil => exact absurd hs (splitSlash_ne_nil p)
  | cons s L =>
    rw [hs] at hj
    have hseg : Matches G.segment s := h s (by rw [hs]; exact List.mem_cons_self)
    have hsne : s ≠ [] := by
      intro e
      subst e
      cases L with
      | nil => simp [joinSlash] at hj; exact hne hj
      | cons t L' =>
        simp only [joinSlash, List.nil_append] at hj
        rw [← hj] at hrel
        simp [isAbs] at hrel
    have hnz := okp.segNz_of_seg s hseg hsne
    cases L with
    | nil =>
      simp only [joinSlash] at hj
      rw [← hj]
      have := Matches.seq hnz (Matches.starNil (a := seq (ch 0x2F) G.segment))
      simpa [Grammar.pathRootless, Grammar.pathAbempty] using this
    | cons t L' =>
      simp only [joinSlash] at hj
      rw [← hj]
      have hab := abempty_of_list G ok okp (t :: L') (by simp)
        (fun x hx => h x (by rw [hs]; exact List.mem_cons_of_mem _ hx))
      exact Matches.seq hnz hab

/-- a good path makes a valid component list -/
theorem valid_of_good (P : Spec.Parts) (hv : ValidParts G P) (p : Text)
    (hg : GoodPath G P.authority.isSome (P.scheme.isNone && P.authority.isNone) p) :
    ValidParts G { P with path := p } where
  scheme := hv.scheme
  authority := hv.authority
  pathAuth ha := by
    simp only at ha ⊢
    rcases hg.auth ha with h | h
    · subst h; exact .starNil
    · cases p with
      | nil => simp [isAbs] at h
      | cons c q =>
        have hc : c = cSlash := by simpa [isAbs] using h
        subst hc
        exact abempty_of_segOK G ok okp (segOK_tail G ok okp hg.segs)
  pathScheme ha hs := by
    simp only at ha hs ⊢
    have hss := hg.noSS (by simp [ha])
    by_cases hp : p = []
    · exact .inr (.inr hp)
    · by_cases habs : isAbs p = true
      · left
        cases p with
        | nil => exact absurd rfl hp
        | cons c q =>
          have hc : c = cSlash := by simpa [isAbs] using habs
          subst hc
          exact absolute_of_abempty G okp (abempty_of_segOK G ok okp (segOK_tail G ok okp hg.segs)) (by simp) hss
      · right; left
        exact rootless_of_segOK G ok okp hg.segs hp (by simpa using habs)
  pathRel ha hs := by
    simp only at ha hs ⊢
    have hss := hg.noSS (by simp [ha])
    have hnc := hg.noColon (by simp [ha, hs])
    by_cases hp : p = []
    · exact .inr (.inr hp)
    · by_cases habs : isAbs p = true
      · left
        cases p with
        | nil => exact absurd rfl hp
        | cons c q =>
          have hc : c = cSlash := by simpa [isAbs] using habs
          subst hc
          exact absolute_of_abempty G okp (abempty_of_segOK G ok okp (segOK_tail G ok okp hg.segs)) (by simp) hss
      · right; left
        exact noscheme_of_rootless G okp (rootless_of_segOK G ok okp hg.segs hp (by simpa using habs)) hnc
  query := hv.query
  fragment := hv.fragment

end

end IrefVerif.Lemmas
