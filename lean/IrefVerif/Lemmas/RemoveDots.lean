import IrefVerif.Model.RelClass
import IrefVerif.Lemmas.PopList
import IrefVerif.Lemmas.EqKey
import IrefVerif.Lemmas.SetterEqs
import IrefVerif.Lemmas.PathHandleRef

/-!
# The model of `remove_dot_segments` and RFC 3986 §5.2.4

`Ref.remove_dot_segments` (normalise the path through the handle, then add the trailing `/` of a
final dot segment, or collapse a lone shielded empty segment) leaves everything around the path
alone and rewrites the path to `rdsView`, an explicit function of the old path.  After an
authority (`path-abempty`) that function *is* RFC 3986 §5.2.4 with Errata 4547:
`rdsView_after_authority : rdsView true true false p = removeDots p`.
-/

set_option linter.unusedSimpArgs false

namespace IrefVerif.Lemmas
open IrefVerif IrefVerif.Spec IrefVerif.Model IrefVerif.Model.Parse

/-- the path after `remove_dot_segments` -/
def rdsView (anch fa atStart : Bool) (p : Text) : Text :=
  let v1 := normView fa atStart p
  if dotEnd p && !Path.is_empty v1 then pushView anch fa atStart v1 []
  else if v1 == [cSlash, cDot, cSlash] || v1 == [cDot, cSlash] then clearView v1
  else v1

/-- the first `next_back()` of the segment iterator is `last()` -/
theorem next_back_last (p : Text) : (Path.Segments.next_back p (Path.segments p)).1 = Path.last p := by
  unfold Path.last Path.segments
  by_cases hne : Path.is_empty p = true
  · simp [hne, Path.Segments.next_back]
  · have hne' : Path.is_empty p = false := by simpa using hne
    simp only [hne', Bool.false_eq_true, if_false, Path.Segments.next_back]
    have hlt : Path.first_segment_offset p < p.length + 1 := by
      unfold Path.first_segment_offset
      have : 0 < p.length := by
        cases p with
        | nil => simp [Path.is_empty] at hne'
        | cons c r => simp
      split <;> omega
    simp only [hlt, if_true]
    cases Path.previous_segment_from p (p.length + 1) <;> rfl

/-- **the model of `remove_dot_segments` on a valid reference** -/
theorem remove_dot_segments_view (G : Grammar) (ok : Grammar.Ok G) (w : Text) (h : RE.Matches G.reference w) :
    ∃ fa, Ref.remove_dot_segments w = some (recompose { split w with
      path := rdsView fa fa ((schemeText (split w).scheme ++ authText (split w).authority).length == 0) (split w).path }) ∧
      fa = (Ref.path_mut w).follows_authority := by
  obtain ⟨hv, wf⟩ := split_valid G ok w h
  have inv := path_handle_of_reference G ok w h
  have hpt : PathText (split w).path := pathText_of_wf _ wf
  have hpath : Ref.path w = (split w).path := by
    have := ref_path_recompose (split w) wf
    rwa [Lemmas.recompose_split] at this
  have hanch : (Ref.path_mut w).anchored = (Ref.path_mut w).follows_authority := rfl
  refine ⟨(Ref.path_mut w).follows_authority, ?_, rfl⟩
  unfold Ref.remove_dot_segments
  simp only [hpath, next_back_last, last_eq_getLast _ hpt, Option.bind_eq_bind]
  obtain ⟨h1, e1, i1, f1, a1⟩ := normalize_view _ _ _ _ inv
  rw [e1, Option.bind_some, i1.view]
  unfold rdsView
  simp only []
  generalize hv1 : normView (Ref.path_mut w).follows_authority
    ((schemeText (split w).scheme ++ authText (split w).authority).length == 0) (split w).path = v1 at i1
  have hfin : ∀ (hx : PathMut) (vx : Text), PInv hx (schemeText (split w).scheme ++ authText (split w).authority) vx
      (queryText (split w).query ++ fragText (split w).fragment) →
      hx.buffer = recompose { split w with path := vx } := by
    intro hx vx ix
    rw [ix.data, recompose_eq]
    simp [List.append_assoc]
  -- everything after the test, for an arbitrary value `o` of the test
  have key : ∀ o : Bool,
      (if (o && !Path.is_empty v1) = true then Option.map (fun x => x.buffer) (h1.push [])
       else if (v1 == [cSlash, cDot, cSlash] || v1 == [cDot, cSlash]) = true then
         Option.map (fun x => x.buffer) h1.clear
       else some h1.buffer) =
      some (recompose { split w with path :=
        (if (o && !Path.is_empty v1) = true then
          (pushView (Ref.path_mut w).follows_authority (Ref.path_mut w).follows_authority ((schemeText (split w).scheme ++ authText (split w).authority).length == 0) v1 [])
        else if (v1 == [cSlash, cDot, cSlash] || v1 == [cDot, cSlash]) = true then clearView v1 else v1) }) := by
    intro o
    by_cases hc : (o && !Path.is_empty v1) = true
    · simp only [hc, if_true]
      obtain ⟨h2, e2, i2, _, _⟩ := push_view h1 _ _ _ i1 []
      rw [a1, f1, hanch] at i2
      rw [e2, Option.map_some, hfin h2 _ i2]
    · have hc' : (o && !Path.is_empty v1) = false := by simpa using hc
      simp only [hc', Bool.false_eq_true, if_false]
      by_cases hs : (v1 == [cSlash, cDot, cSlash] || v1 == [cDot, cSlash]) = true
      · simp only [hs, if_true]
        obtain ⟨h2, e2, i2, _, _⟩ := clear_view h1 _ _ _ i1
        rw [e2, Option.map_some, hfin h2 _ i2]
      · have hs' : (v1 == [cSlash, cDot, cSlash] || v1 == [cDot, cSlash]) = false := by simpa using hs
        simp only [hs', Bool.false_eq_true, if_false]
        rw [hfin h1 _ i1]
  cases hgl : (segs (split w).path).getLast? with
  | none =>
    have hde : dotEnd (split w).path = false := by unfold dotEnd; rw [hgl]
    simp only [hde]
    exact key false
  | some s =>
    have hde : dotEnd (split w).path = (s == [cDot] || s == [cDot, cDot]) := by
      unfold dotEnd; rw [hgl]
      simp only
      by_cases h1 : s = [cDot]
      · simp [h1, segDot, segDotDot]
      · by_cases h2 : s = [cDot, cDot]
        · simp [h2, segDot, segDotDot]
        · simp [h1, h2, segDot, segDotDot]
    simp only [hde]
    exact key _

/-! ## after an authority the model is RFC 3986 §5.2.4 -/

theorem joinSegs_eq (l : List Text) : PathMut.joinSegs l = joinSlash l := by
  induction l with
  | nil => rfl
  | cons s ss ih =>
    cases ss with
    | nil => rfl
    | cons t ts => simp only [PathMut.joinSegs, joinSlash, ih]

theorem joinSlash_snoc_nil (l : List Text) (hne : l ≠ []) : joinSlash (l ++ [[]]) = joinSlash l ++ [cSlash] := by
  induction l with
  | nil => exact absurd rfl hne
  | cons s ss ih =>
    cases ss with
    | nil => simp [joinSlash]
    | cons t ts =>
      have := ih (by simp)
      simp only [List.cons_append, joinSlash] at this ⊢
      rw [this]; simp

theorem splitSlash_no_slash (t : Text) : ∀ s ∈ splitSlash t, cSlash ∉ s := by
  induction t with
  | nil => intro s hs; simp [splitSlash] at hs; subst hs; simp
  | cons c t ih =>
    intro s hs
    simp only [splitSlash] at hs
    by_cases hc : (c == cSlash) = true
    · simp only [hc, if_true, List.mem_cons] at hs
      rcases hs with rfl | hs
      · simp
      · exact ih s hs
    · have hc' : (c == cSlash) = false := by simpa using hc
      simp only [hc', Bool.false_eq_true, if_false] at hs
      cases hsp : splitSlash t with
      | nil => exact absurd hsp (splitSlash_ne_nil t)
      | cons a as =>
        rw [hsp] at hs ih
        simp only [List.mem_cons] at hs
        rcases hs with rfl | hs
        · intro hm
          rcases List.mem_cons.mp hm with e | e
          · have : c = cSlash := e.symm
            simp [this] at hc'
          · exact ih a List.mem_cons_self e
        · exact ih s (List.mem_cons_of_mem _ hs)

theorem segs_no_slash (p : Text) : ∀ s ∈ segs p, cSlash ∉ s := by
  intro s hs
  unfold segs at hs
  split at hs
  · cases hs
  · exact splitSlash_no_slash _ s hs

/-- a dot-free list never joins to `./` -/
theorem joinSlash_ne_dotSlash (l : List Text) (hns : ∀ s ∈ l, cSlash ∉ s) (hnd : segDot ∉ l) :
    joinSlash l ≠ [cDot, cSlash] := by
  intro h
  cases l with
  | nil => cases h
  | cons s ss =>
    cases ss with
    | nil =>
      simp only [joinSlash] at h
      exact hns s List.mem_cons_self (by rw [h]; simp)
    | cons t ts =>
      simp only [joinSlash] at h
      -- the first `/` of `./` is at index 1, so `s = "."`
      have hs := hns s List.mem_cons_self
      cases s with
      | nil => simp [cSlash, cDot] at h
      | cons a s' =>
        simp only [List.cons_append, List.cons.injEq] at h
        obtain ⟨rfl, h⟩ := h
        cases s' with
        | nil => exact hnd (by simp [segDot])
        | cons b s'' =>
          simp only [List.cons_append, List.cons.injEq] at h
          obtain ⟨rfl, _⟩ := h
          exact hs (by simp)

/-- **RFC 3986 §5.2.4 after an authority** -/
theorem rdsView_after_authority (atStart : Bool) (p : Text) (hp : PathText p)
    (hab : p = [] ∨ ∃ r, p = cSlash :: r) : rdsView true true atStart p = removeDots p := by
  unfold rdsView normView removeDots normTarget render
  simp only [normalized_segments_eq p hp, joinSegs_eq]
  rcases hab with rfl | ⟨r, rfl⟩
  · cases atStart <;> decide
  · have hrel : Path.is_relative (cSlash :: r) = false := by simp [Path.is_relative, Path.is_absolute]
    have habs : isAbs (cSlash :: r) = true := by simp [isAbs]
    simp only [hrel, habs, if_true, Bool.false_or, Bool.not_true, Bool.false_and, Bool.or_false]
    have hns : ∀ s ∈ nsegs (cSlash :: r), cSlash ∉ s :=
      fun s hs => segs_no_slash _ s (nsegsOf_subset _ _ s hs)
    have hnd : segDot ∉ nsegs (cSlash :: r) := nsegsOf_noDot _ _
    generalize hN : nsegs (cSlash :: r) = N at hns hnd
    generalize hD : dotEnd (cSlash :: r) = D
    cases N with
    | nil =>
      cases D <;> simp [Path.is_empty, joinSlash, pushView, clearView, isAbs, cSlash, cDot]
    | cons first rest =>
      by_cases hsh : (first.isEmpty && (first :: rest).length == 1) = true
      · -- the lone empty segment
        simp only [Bool.and_eq_true] at hsh
        have hf : first = [] := by simpa using hsh.1
        have hr : rest = [] := by
          have := hsh.2
          simp only [List.length_cons, beq_iff_eq] at this
          cases rest with
          | nil => rfl
          | cons x xs => simp at this
        subst hf; subst hr
        cases D <;> simp [Path.is_empty, joinSlash, pushView, clearView, isAbs, cSlash, cDot]
      · have hsh' : (first.isEmpty && (first :: rest).length == 1) = false := by simpa using hsh
        simp only [hsh', Bool.false_eq_true, if_false, List.nil_append]
        have hjne : joinSlash (first :: rest) ≠ [] := by
          intro he
          cases rest with
          | nil =>
            simp only [joinSlash] at he
            subst he
            simp at hsh'
          | cons x xs => simp [joinSlash] at he
        have hv1e : Path.is_empty ([cSlash] ++ joinSlash (first :: rest)) = false := by
          cases hj : joinSlash (first :: rest) with
          | nil => exact absurd hj hjne
          | cons a b => simp [Path.is_empty]
        have hnds : ([cSlash] ++ joinSlash (first :: rest) == [cSlash, cDot, cSlash]) = false := by
          have := joinSlash_ne_dotSlash (first :: rest) hns hnd
          simp only [List.singleton_append, beq_eq_false_iff_ne, ne_eq, List.cons.injEq, true_and]
          exact this
        have hnds2 : ([cSlash] ++ joinSlash (first :: rest) == [cDot, cSlash]) = false := by
          simp [cSlash, cDot]
        cases D with
        | false =>
          simp only [Bool.false_and, Bool.false_eq_true, if_false, hnds, hnds2, Bool.or_self,
            List.isEmpty_cons, Bool.not_false, Bool.and_true, List.append_nil]
        | true =>
          simp only [Bool.true_and, hv1e, Bool.not_false, if_true, List.isEmpty_cons, Bool.and_self]
          rw [joinSlash_snoc_nil _ (by simp)]
          unfold pushView
          have h1 : ([cSlash] ++ joinSlash (first :: rest)).isEmpty = false := by simp
          simp only [h1, Bool.and_false, Bool.false_eq_true, if_false, hv1e, Bool.true_and, hnds]
          simp [List.append_assoc]

/-! ## without an authority: RFC 3986 §5.2.4 whenever the result needs no shield -/

theorem rdsView_no_shield (anch fa atStart : Bool) (p : Text) (hp : PathText p)
    (hns : needsShield fa atStart p = false) : rdsView anch fa atStart p = removeDots p := by
  unfold rdsView normView removeDots normTarget render
  simp only [normalized_segments_eq p hp, joinSegs_eq]
  have hnsl : ∀ s ∈ nsegs p, cSlash ∉ s := fun s hs => segs_no_slash _ s (nsegsOf_subset _ _ s hs)
  have hnd : segDot ∉ nsegs p := nsegsOf_noDot _ _
  unfold needsShield at hns
  generalize hN : nsegs p = N at hns hnsl hnd
  generalize hD : dotEnd p = D
  cases N with
  | nil =>
    simp only [List.nil_append, joinSlash, List.append_nil, List.isEmpty_nil, Bool.not_true, Bool.and_false,
      Bool.false_eq_true, if_false]
    cases hA : isAbs p <;> cases D <;> simp [Path.is_empty, clearView, cSlash, cDot]
  | cons first rest =>
    simp only at hns
    simp only [hns, Bool.false_eq_true, if_false, List.nil_append]
    -- the first segment is not empty when the path is relative or no authority precedes
    have hjne : joinSlash (first :: rest) ≠ [] := by
      intro he
      cases rest with
      | nil =>
        simp only [joinSlash] at he
        subst he
        simp at hns
      | cons x xs => simp [joinSlash] at he
    have hv1e : Path.is_empty ((if isAbs p then [cSlash] else []) ++ joinSlash (first :: rest)) = false := by
      cases hj : joinSlash (first :: rest) with
      | nil => exact absurd hj hjne
      | cons a b =>
        cases hA : isAbs p
        · simp only [Bool.false_eq_true, if_false, List.nil_append, Path.is_empty, List.isEmpty_cons, Bool.false_or]
          -- a relative result never begins with `/` here: its first segment is not empty
          have hrel : Path.is_relative p = true := by simp [Path.is_relative, is_absolute_eq, hA]
          have hfe : first.isEmpty = false := by
            simp only [hrel, Bool.true_or, Bool.and_true, Bool.or_eq_false_iff] at hns
            exact hns.1
          cases first with
          | nil => simp at hfe
          | cons f fs =>
            have hfs : f ≠ cSlash := fun e => hnsl (f :: fs) List.mem_cons_self (e ▸ List.mem_cons_self)
            cases rest with
            | nil =>
              simp only [joinSlash] at hj
              injection hj with h1 _
              subst h1
              simp [hfs]
            | cons x xs =>
              simp only [joinSlash, List.cons_append] at hj
              injection hj with h1 _
              subst h1
              simp [hfs]
        · simp [Path.is_empty]
    have hnds : ((if isAbs p then [cSlash] else []) ++ joinSlash (first :: rest) == [cSlash, cDot, cSlash]) = false := by
      have := joinSlash_ne_dotSlash (first :: rest) hnsl hnd
      cases hA : isAbs p
      · simp only [Bool.false_eq_true, if_false, List.nil_append, beq_eq_false_iff_ne, ne_eq]
        intro he
        -- a relative path would start with an empty first segment
        have hrel : Path.is_relative p = true := by simp [Path.is_relative, is_absolute_eq, hA]
        have hfe : first.isEmpty = false := by
          simp only [hrel, Bool.true_or, Bool.and_true, Bool.or_eq_false_iff] at hns
          exact hns.1
        cases first with
        | nil => simp at hfe
        | cons f fs =>
          have hfs : f ≠ cSlash := fun e => hnsl (f :: fs) List.mem_cons_self (e ▸ List.mem_cons_self)
          cases rest with
          | nil => simp only [joinSlash] at he; injection he with h1 _; exact hfs h1
          | cons x xs => simp only [joinSlash, List.cons_append] at he; injection he with h1 _; exact hfs h1
      · simp only [if_true, List.singleton_append, beq_eq_false_iff_ne, ne_eq, List.cons.injEq, true_and]
        exact this
    have hnds2 : ((if isAbs p then [cSlash] else []) ++ joinSlash (first :: rest) == [cDot, cSlash]) = false := by
      have := joinSlash_ne_dotSlash (first :: rest) hnsl hnd
      cases hA : isAbs p
      · simp only [Bool.false_eq_true, if_false, List.nil_append, beq_eq_false_iff_ne, ne_eq]
        exact this
      · simp [cSlash, cDot]
    cases D with
    | false =>
      simp only [Bool.false_and, Bool.false_eq_true, if_false, hnds, hnds2, Bool.or_self,
        List.isEmpty_cons, Bool.not_false, Bool.and_true, List.append_nil]
    | true =>
      simp only [Bool.true_and, hv1e, Bool.not_false, if_true, List.isEmpty_cons, Bool.and_self]
      rw [joinSlash_snoc_nil _ (by simp)]
      unfold pushView
      have h1 : ((if isAbs p then [cSlash] else []) ++ joinSlash (first :: rest)).isEmpty = false := by
        cases hj : joinSlash (first :: rest) with
        | nil => exact absurd hj hjne
        | cons a b => cases isAbs p <;> simp
      simp only [h1, Bool.and_false, Bool.false_eq_true, if_false, hv1e, hnds, Bool.and_false]
      simp [List.append_assoc]

end IrefVerif.Lemmas
