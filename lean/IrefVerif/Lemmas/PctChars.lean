import IrefVerif.Lemmas.PctBytes

/-!
# The character view, where the decoded octets are well-formed UTF-8

`PctStr::chars()` (lenient decoder over the percent-decoded octets, every item unwrapped) yields
exactly the scalar values of the strict UTF-8 decoding whenever that decoding exists — the
complement of the class of the open finding F13.
-/

set_option linter.unusedSimpArgs false

namespace IrefVerif.Lemmas
open IrefVerif.Spec IrefVerif.Model.Cmp

/-- one octet of the stream: the decoded octets begin with it, the rest is well escaped and shorter -/
theorem nextByte_spec (t : Text) (hne : t ≠ []) (hw : wellEscaped t = true) :
    ∃ b rest, nextByte t = some (some (b, rest)) ∧ pctDecode t = b :: pctDecode rest ∧
      wellEscaped rest = true ∧ rest.length < t.length := by
  match t, hne, hw with
  | [c], _, hw =>
    simp only [wellEscaped, Bool.not_eq_true'] at hw
    exact ⟨c, [], by simp [nextByte, hw], by simp [pctDecode], rfl, by simp⟩
  | [c, a], _, hw =>
    simp only [wellEscaped, Bool.and_eq_true, Bool.not_eq_true'] at hw
    exact ⟨c, [a], by simp [nextByte, hw.1], by simp [pctDecode], by simpa [wellEscaped] using hw.2, by simp⟩
  | c :: a :: b :: rest, _, hw =>
    by_cases hc : (c == cPct) = true
    · simp only [wellEscaped, hc, if_true, Bool.and_eq_true] at hw
      obtain ⟨x, hx⟩ := Option.isSome_iff_exists.mp hw.1.1
      obtain ⟨y, hy⟩ := Option.isSome_iff_exists.mp hw.1.2
      exact ⟨16 * x + y, rest, by simp [nextByte, hc, hx, hy], by simp [pctDecode, hc, hx, hy], hw.2, by simp; omega⟩
    · have hc' : (c == cPct) = false := by simpa using hc
      simp only [wellEscaped, hc', Bool.false_eq_true, if_false] at hw
      exact ⟨c, a :: b :: rest, by simp [nextByte, hc'], by simp [pctDecode, hc'], hw, by simp⟩

theorem pctDecode_nil_iff (t : Text) (hw : wellEscaped t = true) : pctDecode t = [] ↔ t = [] := by
  constructor
  · intro h
    by_cases hne : t = []
    · exact hne
    · obtain ⟨b, rest, _, hd, _, _⟩ := nextByte_spec t hne hw
      rw [hd] at h; cases h
  · rintro rfl; rfl

/-- a continuation octet -/
theorem contByte_spec (t : Text) (hw : wellEscaped t = true) (b : Nat) (D : Text) (hd : pctDecode t = b :: D)
    (hc : isCont b = true) :
    ∃ rest, contByte t = some (b % 64, rest) ∧ D = pctDecode rest ∧ wellEscaped rest = true ∧
      rest.length < t.length := by
  have hne : t ≠ [] := by intro e; subst e; simp [pctDecode] at hd
  obtain ⟨b', rest, e, hd', hw', hl⟩ := nextByte_spec t hne hw
  rw [hd'] at hd
  simp only [List.cons.injEq] at hd
  obtain ⟨rfl, rfl⟩ := hd
  refine ⟨rest, ?_, rfl, hw', hl⟩
  unfold contByte
  simp only [e]
  simp only [isCont, Bool.and_eq_true, decide_eq_true_eq] at hc
  have : (b' / 64 == 2) = true := by simp; omega
  simp [this]

theorem cp3_eq (b0 b1 b2 : Nat) (h0 : 0xE0 ≤ b0 ∧ b0 ≤ 0xEF) (h1 : 0x80 ≤ b1 ∧ b1 ≤ 0xBF) (h2 : 0x80 ≤ b2 ∧ b2 ≤ 0xBF) :
    b0 % 16 * 4096 + b1 % 64 * 64 + b2 % 64 = (b0 - 0xE0) * 4096 + (b1 - 0x80) * 64 + (b2 - 0x80) := by
  omega

theorem cp4_eq (b0 b1 b2 b3 : Nat) (h0 : 0xF0 ≤ b0 ∧ b0 ≤ 0xF4) (h1 : 0x80 ≤ b1 ∧ b1 ≤ 0xBF) (h2 : 0x80 ≤ b2 ∧ b2 ≤ 0xBF)
    (h3 : 0x80 ≤ b3 ∧ b3 ≤ 0xBF) :
    b0 % 8 * 262144 + b1 % 64 * 4096 + b2 % 64 * 64 + b3 % 64 =
      (b0 - 0xF0) * 262144 + (b1 - 0x80) * 4096 + (b2 - 0x80) * 64 + (b3 - 0x80) := by
  omega

/-- **one character**: if the strict decoder reads `c` from the decoded octets, `Chars::next` yields
`c` and continues on a text whose decoded octets are the remainder -/
theorem nextChar_spec (t : Text) (hw : wellEscaped t = true) (c : Nat) (w : List Nat)
    (hd : utf8Decode? (pctDecode t) = some (c :: w)) :
    ∃ rest, nextChar t = some (.ch c, rest) ∧ utf8Decode? (pctDecode rest) = some w ∧
      wellEscaped rest = true ∧ rest.length < t.length := by
  have hne : t ≠ [] := by
    intro e; subst e
    simp [pctDecode, utf8Decode?] at hd
  obtain ⟨b0, r0, e0, hd0, hw0, hl0⟩ := nextByte_spec t hne hw
  rw [hd0] at hd
  unfold nextChar
  simp only [e0]
  unfold utf8Decode? at hd
  by_cases h1 : b0 < 0x80
  · -- one octet
    simp only [h1, if_true] at hd ⊢
    cases hr : utf8Decode? (pctDecode r0) with
    | none => rw [hr] at hd; simp at hd
    | some w' =>
      rw [hr] at hd
      simp only [Option.map_some, Option.some.injEq, List.cons.injEq] at hd
      obtain ⟨rfl, rfl⟩ := hd
      have hv : validChar b0 = true := by simp [validChar]; omega
      exact ⟨r0, by simp [hv], hr, hw0, hl0⟩
  · simp only [h1, if_false] at hd ⊢
    by_cases h2 : (decide (0xC2 ≤ b0) && decide (b0 ≤ 0xDF)) = true
    · -- two octets
      simp only [h2, if_true] at hd
      simp only [Bool.and_eq_true, decide_eq_true_eq] at h2
      cases hD : pctDecode r0 with
      | nil => rw [hD] at hd; simp at hd
      | cons b1 D1 =>
        rw [hD] at hd
        simp only [] at hd
        by_cases hc1 : isCont b1 = true
        · simp only [hc1, if_true] at hd
          obtain ⟨r1, e1, hD1, hw1, hl1⟩ := contByte_spec r0 hw0 b1 D1 hD hc1
          rw [hD1] at hd
          cases hr : utf8Decode? (pctDecode r1) with
          | none => rw [hr] at hd; simp at hd
          | some w' =>
            rw [hr] at hd
            simp only [Option.map_some, Option.some.injEq, List.cons.injEq] at hd
            obtain ⟨hcp, rfl⟩ := hd
            have hq : (b0 / 32 == 6) = true := by simp; omega
            simp only [isCont, Bool.and_eq_true, decide_eq_true_eq] at hc1
            have hcp' : b0 % 32 * 64 + b1 % 64 = c := by omega
            have hv : validChar c = true := by simp [validChar]; omega
            exact ⟨r1, by simp [hq, e1, hcp', hv], hr, hw1, by omega⟩
        · simp [hc1] at hd
    · have h2' : (decide (0xC2 ≤ b0) && decide (b0 ≤ 0xDF)) = false := by simpa using h2
      simp only [h2', Bool.false_eq_true, if_false] at hd
      by_cases h3 : (decide (0xE0 ≤ b0) && decide (b0 ≤ 0xEF)) = true
      · -- three octets
        simp only [h3, if_true] at hd
        simp only [Bool.and_eq_true, decide_eq_true_eq] at h3
        cases hD : pctDecode r0 with
        | nil => rw [hD] at hd; simp at hd
        | cons b1 D1 =>
          cases D1 with
          | nil => rw [hD] at hd; simp at hd
          | cons b2 D2 =>
            rw [hD] at hd
            simp only [] at hd
            by_cases hcond : (isCont b1 && isCont b2 &&
                decide (0x800 ≤ (b0 - 0xE0) * 4096 + (b1 - 0x80) * 64 + (b2 - 0x80)) &&
                !(decide (0xD800 ≤ (b0 - 0xE0) * 4096 + (b1 - 0x80) * 64 + (b2 - 0x80)) &&
                  decide ((b0 - 0xE0) * 4096 + (b1 - 0x80) * 64 + (b2 - 0x80) ≤ 0xDFFF))) = true
            · simp only [hcond, if_true] at hd
              simp only [Bool.and_eq_true, decide_eq_true_eq, Bool.not_eq_true', Bool.and_eq_false_iff,
                decide_eq_false_iff_not] at hcond
              obtain ⟨⟨⟨hc1, hc2⟩, hlo⟩, hsur⟩ := hcond
              obtain ⟨r1, e1, hD1, hw1, hl1⟩ := contByte_spec r0 hw0 b1 (b2 :: D2) hD hc1
              obtain ⟨r2, e2, hD2, hw2, hl2⟩ := contByte_spec r1 hw1 b2 D2 hD1.symm hc2
              rw [hD2] at hd
              cases hr : utf8Decode? (pctDecode r2) with
              | none => rw [hr] at hd; simp at hd
              | some w' =>
                rw [hr] at hd
                simp only [Option.map_some, Option.some.injEq, List.cons.injEq] at hd
                obtain ⟨hcp, rfl⟩ := hd
                have hq1 : (b0 / 32 == 6) = false := by simp; omega
                have hq2 : (b0 / 16 == 14) = true := by simp; omega
                simp only [isCont, Bool.and_eq_true, decide_eq_true_eq] at hc1 hc2
                have hcp' : b0 % 16 * 4096 + b1 % 64 * 64 + b2 % 64 = c := by rw [cp3_eq b0 b1 b2 h3 hc1 hc2]; exact hcp
                have hv : validChar c = true := by
                  simp only [validChar, Bool.or_eq_true, Bool.and_eq_true, decide_eq_true_eq]
                  omega
                refine ⟨r2, ?_, hr, hw2, by omega⟩
                have h80 : ¬ b0 < 0x80 := h1
                simp only [h80, if_false, hq1, Bool.false_eq_true, hq2, if_true, e1, e2, hcp', hv]
            · have hcond' : (isCont b1 && isCont b2 &&
                decide (0x800 ≤ (b0 - 0xE0) * 4096 + (b1 - 0x80) * 64 + (b2 - 0x80)) &&
                !(decide (0xD800 ≤ (b0 - 0xE0) * 4096 + (b1 - 0x80) * 64 + (b2 - 0x80)) &&
                  decide ((b0 - 0xE0) * 4096 + (b1 - 0x80) * 64 + (b2 - 0x80) ≤ 0xDFFF))) = false := by
                simpa using hcond
              rw [hcond'] at hd
              simp at hd
      · have h3' : (decide (0xE0 ≤ b0) && decide (b0 ≤ 0xEF)) = false := by simpa using h3
        simp only [h3', Bool.false_eq_true, if_false] at hd
        by_cases h4 : (decide (0xF0 ≤ b0) && decide (b0 ≤ 0xF4)) = true
        · -- four octets
          simp only [h4, if_true] at hd
          simp only [Bool.and_eq_true, decide_eq_true_eq] at h4
          cases hD : pctDecode r0 with
          | nil => rw [hD] at hd; simp at hd
          | cons b1 D1 =>
            cases D1 with
            | nil => rw [hD] at hd; simp at hd
            | cons b2 D2 =>
              cases D2 with
              | nil => rw [hD] at hd; simp at hd
              | cons b3 D3 =>
                rw [hD] at hd
                simp only [] at hd
                by_cases hcond : (isCont b1 && isCont b2 && isCont b3 &&
                    decide (0x10000 ≤ (b0 - 0xF0) * 262144 + (b1 - 0x80) * 4096 + (b2 - 0x80) * 64 + (b3 - 0x80)) &&
                    decide ((b0 - 0xF0) * 262144 + (b1 - 0x80) * 4096 + (b2 - 0x80) * 64 + (b3 - 0x80) ≤ 0x10FFFF)) = true
                · simp only [hcond, if_true] at hd
                  simp only [Bool.and_eq_true, decide_eq_true_eq] at hcond
                  obtain ⟨⟨⟨⟨hc1, hc2⟩, hc3⟩, hlo⟩, hhi⟩ := hcond
                  obtain ⟨r1, e1, hD1, hw1, hl1⟩ := contByte_spec r0 hw0 b1 (b2 :: b3 :: D3) hD hc1
                  obtain ⟨r2, e2, hD2, hw2, hl2⟩ := contByte_spec r1 hw1 b2 (b3 :: D3) hD1.symm hc2
                  obtain ⟨r3, e3, hD3, hw3, hl3⟩ := contByte_spec r2 hw2 b3 D3 hD2.symm hc3
                  rw [hD3] at hd
                  cases hr : utf8Decode? (pctDecode r3) with
                  | none => rw [hr] at hd; simp at hd
                  | some w' =>
                    rw [hr] at hd
                    simp only [Option.map_some, Option.some.injEq, List.cons.injEq] at hd
                    obtain ⟨hcp, rfl⟩ := hd
                    have hq1 : (b0 / 32 == 6) = false := by simp; omega
                    have hq2 : (b0 / 16 == 14) = false := by simp; omega
                    have hq3 : (b0 / 8 == 30) = true := by simp; omega
                    simp only [isCont, Bool.and_eq_true, decide_eq_true_eq] at hc1 hc2 hc3
                    have hcp' : b0 % 8 * 262144 + b1 % 64 * 4096 + b2 % 64 * 64 + b3 % 64 = c := by
                      rw [cp4_eq b0 b1 b2 b3 h4 hc1 hc2 hc3]; exact hcp
                    have hv : validChar c = true := by
                      simp only [validChar, Bool.or_eq_true, Bool.and_eq_true, decide_eq_true_eq]
                      omega
                    refine ⟨r3, ?_, hr, hw3, by omega⟩
                    have h80 : ¬ b0 < 0x80 := h1
                    simp only [h80, if_false, hq1, Bool.false_eq_true, hq2, hq3, if_true, e1, e2, e3, hcp', hv]
                · have hcond' : (isCont b1 && isCont b2 && isCont b3 &&
                    decide (0x10000 ≤ (b0 - 0xF0) * 262144 + (b1 - 0x80) * 4096 + (b2 - 0x80) * 64 + (b3 - 0x80)) &&
                    decide ((b0 - 0xF0) * 262144 + (b1 - 0x80) * 4096 + (b2 - 0x80) * 64 + (b3 - 0x80) ≤ 0x10FFFF)) = false := by
                    simpa using hcond
                  rw [hcond'] at hd
                  simp at hd
        · have h4' : (decide (0xF0 ≤ b0) && decide (b0 ≤ 0xF4)) = false := by simpa using h4
          simp only [h4', Bool.false_eq_true, if_false] at hd
          cases hd

theorem nextChar_nil : nextChar [] = none := rfl

theorem charsFuel_spec : ∀ (fuel : Nat) (t : Text) (w : List Nat), t.length < fuel → wellEscaped t = true →
    utf8Decode? (pctDecode t) = some w → charsFuel fuel t = w.map Item.ch := by
  intro fuel
  induction fuel with
  | zero => intro t w h; omega
  | succ n ih =>
    intro t w hl hw hd
    cases w with
    | nil =>
      -- nothing decoded: the text is empty
      have : pctDecode t = [] := by
        cases hD : pctDecode t with
        | nil => rfl
        | cons b D =>
          rw [hD] at hd
          unfold utf8Decode? at hd
          exfalso
          -- every branch of the decoder that succeeds yields at least one scalar
          split at hd
          · cases h : utf8Decode? D <;> simp [h] at hd
          · split at hd
            · cases D with
              | nil => simp at hd
              | cons b1 D1 =>
                simp only [] at hd
                split at hd
                · cases h : utf8Decode? D1 <;> simp [h] at hd
                · cases hd
            · split at hd
              · cases D with
                | nil => simp at hd
                | cons b1 D1 =>
                  cases D1 with
                  | nil => simp at hd
                  | cons b2 D2 =>
                    simp only [] at hd
                    split at hd
                    · cases h : utf8Decode? D2 <;> simp [h] at hd
                    · cases hd
              · split at hd
                · cases D with
                  | nil => simp at hd
                  | cons b1 D1 =>
                    cases D1 with
                    | nil => simp at hd
                    | cons b2 D2 =>
                      cases D2 with
                      | nil => simp at hd
                      | cons b3 D3 =>
                        simp only [] at hd
                        split at hd
                        · cases h : utf8Decode? D3 <;> simp [h] at hd
                        · cases hd
                · cases hd
      have ht : t = [] := (pctDecode_nil_iff t hw).mp this
      subst ht
      simp [charsFuel, nextChar_nil]
    | cons c w' =>
      obtain ⟨rest, e, hr, hwr, hlr⟩ := nextChar_spec t hw c w' hd
      simp only [charsFuel, e, List.map_cons]
      rw [ih rest w' (by omega) hwr hr]

theorem foldr_items (w : List Nat) :
    (w.map Item.ch).foldr (fun it acc => match it, acc with
      | .ch c, some l => some (c :: l)
      | _, _ => none) (some []) = some w := by
  induction w with
  | nil => rfl
  | cons c w ih => simp only [List.map_cons, List.foldr_cons, ih]

/-- **characters**: total and faithful wherever the decoded octets are well-formed UTF-8 -/
theorem charsAll_spec (t : Text) (w : List Nat) (hw : wellEscaped t = true)
    (hd : utf8Decode? (pctDecode t) = some w) : charsAll t = some w := by
  unfold charsAll chars
  rw [charsFuel_spec _ t w (Nat.lt_succ_self _) hw hd]
  exact foldr_items w

end IrefVerif.Lemmas
