import IrefVerif.Lemmas.SetterEqs
import IrefVerif.Lemmas.AuthModel
import IrefVerif.Spec.Resolve

/-!
# Resolution of a reference with an empty path (RFC 3986 §5.2.2, third branch)

For a reference `r` without scheme and authority and with an empty path (`""`, `?q`, `#f`,
`?q#f`) and a base `b` with a scheme, the *model of `RiRefBufImpl::resolve`* — `set_scheme`,
`set_authority`, `set_path`, `set_query` in sequence — returns exactly
`recompose (transform (split b) (split r))`.  Stated on well-formed component lists.
-/

set_option linter.unusedSimpArgs false

namespace IrefVerif.Lemmas
open IrefVerif IrefVerif.Spec IrefVerif.Model IrefVerif.Model.Parse

theorem ref_query_recompose (P : Spec.Parts) (wf : WF P) : Ref.query (recompose P) = P.query := by
  unfold Ref.query
  have h := find_query_recompose P wf
  have hm := congrArg Spec.Parts.query (modelRefParts_recompose P wf)
  simp only [modelRefParts] at hm
  -- both scans give the same range
  have hr : (find_query (recompose P) 0).toOption = (reference_parts (recompose P) 0).query := by
    rw [h, reference_parts_recompose P wf]
  rw [hr]
  simpa [sliceO] using hm

theorem ref_scheme_full (P : Spec.Parts) (wf : WF P) (s : Text) (hs : P.scheme = some s) :
    Ref.scheme (recompose P) = s := by
  unfold Ref.scheme Parse.scheme
  obtain ⟨hne, hsc⟩ := wf.scheme s hs
  have hw : recompose P = s ++ cColon :: restS P := by
    rw [recompose_S, hs]; simp [schemeText]
  rw [hw, List.drop_zero]
  have : spanLen (fun c => c != cColon) (s ++ cColon :: restS P) = s.length := by
    apply spanLen_ne cColon s (cColon :: restS P) _ (.inr ⟨_, rfl⟩)
    intro hc
    have := hsc cColon hc
    simp [nCSQH] at this
  rw [this]
  simp [slice]

/-- `RiBufImpl::set_scheme` (full types) splices at the same range as the reference setter -/
theorem set_scheme_full_recompose (P : Spec.Parts) (wf : WF P) (s0 : Text) (hs : P.scheme = some s0) (s' : Text) :
    Ref.set_scheme_full (recompose P) s' = some (recompose { P with scheme := some s' }) := by
  rw [← set_scheme_some_recompose P wf s']
  unfold Ref.set_scheme_full Ref.set_scheme Parse.scheme
  simp only [find_scheme_recompose P wf, hs, Option.map_some]
  obtain ⟨_, hsc⟩ := wf.scheme s0 hs
  have hw : recompose P = s0 ++ cColon :: restS P := by
    rw [recompose_S, hs]; simp [schemeText]
  rw [hw, List.drop_zero]
  have : spanLen (fun c => c != cColon) (s0 ++ cColon :: restS P) = s0.length := by
    apply spanLen_ne cColon s0 (cColon :: restS P) _ (.inr ⟨_, rfl⟩)
    intro hc
    have := hsc cColon hc
    simp [nCSQH] at this
  rw [this]
  simp

/-- **§5.2.2, empty reference path** -/
theorem resolve_empty_path (R B : Spec.Parts) (wR : WF R) (wB : WF B) (sb : Text) (hsb : B.scheme = some sb)
    (hs : R.scheme = none) (ha : R.authority = none) (hp : R.path = []) :
    Ref.resolve (recompose R) (recompose B) = some (recompose (transform B R)) := by
  unfold Ref.resolve
  have hrp := reference_parts_recompose R wR
  simp only [hrp, rangesOf, hs, ha, Option.map_none, Option.isSome_none, Bool.false_eq_true, if_false]
  -- step 1: the base's scheme
  rw [ref_scheme_full B wB sb hsb]
  have e1 := set_scheme_some_recompose R wR sb
  simp only [Option.bind_eq_bind, e1, Option.bind_some]
  set_option maxRecDepth 2000 in
  -- P1
  have wf1 : WF { R with scheme := some sb } := by
    refine ⟨?_, ?_, wR.path, wR.query, wR.abempty, wR.noSS, ?_⟩
    · intro s hx; injection hx with hx; subst hx; exact wB.scheme sb hsb
    · exact wR.authority
    · intro hn; cases hn
  have hpath1 : Ref.path (recompose { R with scheme := some sb }) = [] := by
    rw [ref_path_recompose _ wf1]; exact hp
  simp only [hpath1]
  have hrel : (Path.is_relative ([] : Text) && Path.is_empty ([] : Text)) = true := by decide
  simp only [hrel, if_true]
  -- step 2: the base's authority
  rw [ref_authority_recompose B wB]
  have e2 : Ref.set_authority (recompose { R with scheme := some sb }) B.authority
      = some (recompose { R with scheme := some sb, authority := B.authority }) := by
    cases hba : B.authority with
    | some a =>
      rw [set_authority_some_recompose _ wf1 a]
      simp [pathWithAuth, hp]
    | none =>
      rw [set_authority_none_recompose _ wf1]
      simp [pathNoAuth, ha, hp]
  simp only [e2, Option.bind_some]
  have wf2 : WF { R with scheme := some sb, authority := B.authority } := by
    refine ⟨wf1.scheme, ?_, wR.path, wR.query, ?_, ?_, ?_⟩
    · exact wB.authority
    · intro _; exact .inl hp
    · intro _; simp [hp, startsSS]
    · intro hn; cases hn
  -- step 3: the base's path
  rw [ref_path_recompose B wB]
  have hsp : setPathSpec { R with scheme := some sb, authority := B.authority } B.path = B.path := by
    unfold setPathSpec
    cases hba : B.authority with
    | some a =>
      have := wB.abempty (by simp [hba])
      rcases this with h | ⟨r, h⟩
      · simp [h, startsSS]
      · simp [h, isAbs]
    | none =>
      have := wB.noSS hba
      simp [this]
  have e3 := set_path_recompose _ wf2 B.path
  rw [hsp] at e3
  simp only [e3, Option.bind_some]
  have wf3 : WF { R with scheme := some sb, authority := B.authority, path := B.path } := by
    refine ⟨wf1.scheme, wB.authority, wB.path, wR.query, wB.abempty, wB.noSS, ?_⟩
    intro hn; cases hn
  -- step 4: the query
  rw [ref_query_recompose _ wf3, ref_query_recompose B wB]
  unfold transform
  simp only [hs, ha, hp, List.isEmpty_nil, if_true, hsb]
  cases hq : R.query with
  | some q => simp
  | none =>
    simp only [Option.isNone_none, if_true]
    have := set_query_recompose _ wf3 B.query
    simp only [hq] at this
    simpa using this

end IrefVerif.Lemmas
