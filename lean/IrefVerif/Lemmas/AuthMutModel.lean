import IrefVerif.Lemmas.AuthScan
import IrefVerif.Lemmas.SetterEqs

/-!
# The model of the authority handle edits exactly one sub-component

`HInv h pre A post`: the handle's buffer is `pre ++ recomposeAuth A ++ post` and its window
`[start, end)` is exactly the authority.  Each of `set_userinfo`, `set_host`, `set_port`
(setting or removing) on the *model of the Rust handle* (`Model/AuthorityMut.lean`: a scan of the
window, a `Vec` splice, and the checked update of `end`) returns a handle satisfying the
invariant for `A` with that one field replaced: no panic, `pre` and `post` untouched, the
window is the new authority.
-/

set_option linter.unusedSimpArgs false

namespace IrefVerif.Lemmas
open IrefVerif.Spec IrefVerif.Model IrefVerif.Model.Parse

structure HInv (h : AuthorityMut) (pre : Text) (A : AuthParts) (post : Text) : Prop where
  data : h.data = pre ++ recomposeAuth A ++ post
  start : h.start = pre.length
  stop : h.«end» = pre.length + (recomposeAuth A).length

theorem HInv.window {h : AuthorityMut} {pre : Text} {A : AuthParts} {post : Text} (inv : HInv h pre A post) :
    h.data.take h.«end» = pre ++ recomposeAuth A := by
  rw [inv.data, inv.stop]
  have : pre.length + (recomposeAuth A).length = (pre ++ recomposeAuth A).length := by simp
  rw [this, List.take_left]

theorem HInv.view {h : AuthorityMut} {pre : Text} {A : AuthParts} {post : Text} (inv : HInv h pre A post) :
    h.as_authority = recomposeAuth A := by
  unfold AuthorityMut.as_authority
  rw [inv.data, inv.start, inv.stop]
  exact slice_mid pre (recomposeAuth A) post _ _ rfl rfl

theorem sub?_some {a b : Nat} (h : b ≤ a) : AuthorityMut.sub? a b = some (a - b) := by
  simp [AuthorityMut.sub?, h]

theorem len_recomposeAuth (A : AuthParts) :
    (recomposeAuth A).length = (uiText A.userinfo).length + A.host.length + (portText A.port).length := by
  rw [recomposeAuth_eq]; simp; omega

theorem set_userinfo_inv (h : AuthorityMut) (pre : Text) (A : AuthParts) (post : Text)
    (inv : HInv h pre A post) (wf : WFA' A) (v : Option Text) :
    ∃ h', h.set_userinfo v = some h' ∧ HInv h' pre { A with userinfo := v } post := by
  have hscan := find_user_info_at pre A wf
  obtain ⟨ui, ho, p⟩ := A
  unfold AuthorityMut.set_userinfo
  simp only [inv.window, inv.start, hscan]
  have hd := inv.data
  have hs := inv.stop
  rw [recomposeAuth_eq] at hd
  rw [len_recomposeAuth] at hs
  simp only at hd hs ⊢
  cases ui with
  | some u =>
    have hdata : h.data = pre ++ u ++ ([cAt] ++ ho ++ portText p ++ post) := by
      rw [hd]; simp [List.append_assoc]
    cases v with
    | some nu =>
      simp only [Option.map_some]
      rw [hdata, splice_mid pre u _ nu _ _ rfl rfl]
      have hle : pre.length + u.length - pre.length ≤ h.«end» := by rw [hs]; simp; omega
      simp only [Option.bind_eq_bind, Option.bind_some, sub?_some hle, Option.pure_def]
      refine ⟨_, rfl, ?_, rfl, ?_⟩
      · simp [recomposeAuth_eq, List.append_assoc]
      · simp only [len_recomposeAuth, uiText_some, List.length_append, List.length_cons, List.length_nil] at hs ⊢
        rw [hs]; omega
    | none =>
      simp only [Option.map_some]
      have hdata2 : h.data = pre ++ (u ++ [cAt]) ++ (ho ++ portText p ++ post) := by
        rw [hd]; simp [List.append_assoc]
      rw [hdata2, splice_mid pre (u ++ [cAt]) _ [] _ _ rfl (by simp; omega)]
      have hle : pre.length + u.length - pre.length + 1 ≤ h.«end» := by rw [hs]; simp; omega
      simp only [Option.bind_eq_bind, Option.bind_some, sub?_some hle, Option.pure_def]
      refine ⟨_, rfl, ?_, rfl, ?_⟩
      · simp [recomposeAuth_eq, List.append_assoc]
      · simp only [len_recomposeAuth, uiText_some, uiText_none, List.length_append, List.length_cons,
          List.length_nil] at hs ⊢
        rw [hs]; omega
  | none =>
    cases v with
    | some nu =>
      simp only [Option.map_none]
      have hdata : h.data = pre ++ [] ++ (ho ++ portText p ++ post) := by
        rw [hd]; simp [List.append_assoc]
      rw [hdata, splice_mid pre [] _ (nu ++ [cAt]) _ _ rfl (by simp)]
      simp only [Option.bind_eq_bind, Option.bind_some, Option.pure_def]
      refine ⟨_, rfl, ?_, rfl, ?_⟩
      · simp [recomposeAuth_eq, List.append_assoc]
      · simp only [len_recomposeAuth, uiText_some, uiText_none, List.length_append, List.length_cons,
          List.length_nil] at hs ⊢
        rw [hs]; omega
    | none =>
      simp only [Option.map_none]
      exact ⟨h, rfl, inv⟩

theorem set_host_inv (h : AuthorityMut) (pre : Text) (A : AuthParts) (post : Text)
    (inv : HInv h pre A post) (wf : WFA' A) (v : Text) :
    ∃ h', h.set_host v = some h' ∧ HInv h' pre { A with host := v } post := by
  have hscan := find_host_at pre A wf
  obtain ⟨ui, ho, p⟩ := A
  unfold AuthorityMut.set_host
  simp only [inv.window, inv.start, hscan]
  have hd := inv.data
  have hs := inv.stop
  rw [recomposeAuth_eq] at hd
  rw [len_recomposeAuth] at hs
  simp only at hd hs ⊢
  have hdata : h.data = (pre ++ uiText ui) ++ ho ++ (portText p ++ post) := by
    rw [hd]; simp [List.append_assoc]
  have hle1 : pre.length + (uiText ui).length ≤ pre.length + (uiText ui).length + ho.length := by omega
  have hle2 : pre.length + (uiText ui).length + ho.length - (pre.length + (uiText ui).length) ≤ h.«end» := by
    rw [hs]; omega
  simp only [Option.bind_eq_bind, sub?_some hle1, Option.bind_some, sub?_some hle2]
  rw [hdata, splice_mid (pre ++ uiText ui) ho _ v _ _ (by simp) (by simp)]
  simp only [Option.bind_some, Option.pure_def]
  refine ⟨_, rfl, ?_, rfl, ?_⟩
  · simp [recomposeAuth_eq, List.append_assoc]
  · simp only [len_recomposeAuth]
    rw [hs]; omega

theorem set_port_inv (h : AuthorityMut) (pre : Text) (A : AuthParts) (post : Text)
    (inv : HInv h pre A post) (wf : WFA' A) (v : Option Text) :
    ∃ h', h.set_port v = some h' ∧ HInv h' pre { A with port := v } post := by
  have hscan := find_port_at pre A wf
  obtain ⟨ui, ho, p⟩ := A
  unfold AuthorityMut.set_port
  simp only [inv.window, inv.start, hscan]
  have hd := inv.data
  have hs := inv.stop
  rw [recomposeAuth_eq] at hd
  rw [len_recomposeAuth] at hs
  simp only at hd hs ⊢
  cases p with
  | some q =>
    have hdata : h.data = (pre ++ uiText ui ++ ho ++ [cColon]) ++ q ++ post := by
      rw [hd]; simp [List.append_assoc]
    cases v with
    | some np =>
      simp only [Option.map_some]
      rw [hdata, splice_mid (pre ++ uiText ui ++ ho ++ [cColon]) q _ np _ _ (by simp; omega) (by simp; omega)]
      have hle : pre.length + (uiText ui).length + ho.length + 1 + q.length
          - (pre.length + (uiText ui).length + ho.length + 1) ≤ h.«end» := by
        rw [hs]; simp; omega
      simp only [Option.bind_eq_bind, Option.bind_some, sub?_some hle, Option.pure_def]
      refine ⟨_, rfl, ?_, rfl, ?_⟩
      · simp [recomposeAuth_eq, List.append_assoc]
      · simp only [len_recomposeAuth, portText_some, List.length_cons] at hs ⊢
        rw [hs]; omega
    | none =>
      simp only [Option.map_some]
      have hdata2 : h.data = (pre ++ uiText ui ++ ho) ++ ([cColon] ++ q) ++ post := by
        rw [hd]; simp [List.append_assoc]
      have h1 : 1 ≤ pre.length + (uiText ui).length + ho.length + 1 := by omega
      simp only [Option.bind_eq_bind, sub?_some h1, Option.bind_some, Nat.add_sub_cancel]
      rw [hdata2, splice_mid (pre ++ uiText ui ++ ho) ([cColon] ++ q) _ [] _ _ (by simp; omega) (by simp; omega)]
      have hle : pre.length + (uiText ui).length + ho.length + 1 + q.length
          - (pre.length + (uiText ui).length + ho.length + 1) + 1 ≤ h.«end» := by
        rw [hs]; simp; omega
      simp only [Option.bind_some, sub?_some hle, Option.pure_def]
      refine ⟨_, rfl, ?_, rfl, ?_⟩
      · simp [recomposeAuth_eq, List.append_assoc]
      · simp only [len_recomposeAuth, portText_some, portText_none, List.length_cons, List.length_nil] at hs ⊢
        rw [hs]; omega
  | none =>
    cases v with
    | some np =>
      simp only [Option.map_none]
      have hdata : h.data = (pre ++ uiText ui ++ ho) ++ [] ++ post := by
        rw [hd]; simp [List.append_assoc]
      have hend : h.«end» = (pre ++ uiText ui ++ ho).length := by rw [hs]; simp
      rw [hdata, splice_mid (pre ++ uiText ui ++ ho) [] _ (cColon :: np) _ _ hend (by simp [hend])]
      simp only [Option.bind_eq_bind, Option.bind_some, Option.pure_def]
      refine ⟨_, rfl, ?_, rfl, ?_⟩
      · simp [recomposeAuth_eq, List.append_assoc]
      · simp only [len_recomposeAuth, portText_some, portText_none, List.length_cons, List.length_nil] at hs ⊢
        rw [hs]; omega
    | none =>
      simp only [Option.map_none]
      exact ⟨h, rfl, inv⟩

end IrefVerif.Lemmas
