import IrefVerif.Lemmas.PushList
import IrefVerif.Lemmas.PopList
import IrefVerif.Lemmas.NormList
import IrefVerif.Lemmas.RemoveDots
import IrefVerif.Findings

/-!
# `symbolic_append` on an absolute path, through the normalised-sequence abstraction

The handle's view may carry `.` shields (`/./`, `/.`, `/./a`) that the next operation reads
literally, so the literal segment list of the view is not a homomorphic image of the operations.
Its *normalised* sequence is: the invariant `AInv v e` says that the view `v` is absolute and its
literal segments are some `.`s followed by the dot-free list `e`.  Every `push` appends to `e`,
every `pop` removes the last of `e`, and `symbolic_push` follows `Oracle.listSymPush` whenever it
does not skip an empty segment (`Findings.symSkipsGo`, the F15 class).
-/

set_option linter.unusedSimpArgs false

namespace IrefVerif.Lemmas
open IrefVerif IrefVerif.Spec IrefVerif.Model IrefVerif.Oracle IrefVerif.Findings

def DotFree (e : List Text) : Prop := segDot ∉ e ∧ segDotDot ∉ e

/-- the view is absolute; its literal segments are `k` dots followed by `e` -/
structure AInv (v : Text) (e : List Text) : Prop where
  abs : isAbs v = true
  pt : PathText v
  df : DotFree e
  shape : ∃ k, segs v = List.replicate k segDot ++ e

/-- a dot-free list is not the lone `.` that `..` takes for the empty path -/
theorem ite_lone_dot {e : List Text} (df : DotFree e) :
    (if (e == [segDot]) = true then ([] : List Text) else e) = e := by
  have : e ≠ [segDot] := fun h => df.1 (h ▸ List.mem_cons_self)
  simp [this]

theorem realises_cases {q : Text} {L : List Text} (h : realises q L = true) :
    segs q = L ∨ segs q = segDot :: L := by
  simp only [realises, Bool.or_eq_true, decide_eq_true_eq, Bool.and_eq_true] at h
  rcases h with h | ⟨_, h⟩
  · exact Or.inl h
  · exact Or.inr h

theorem alist_cases (v : Text) : alist v = segs v ∨ ∃ r, segs v = segDot :: r ∧ alist v = r := by
  unfold alist
  cases hs : segs v with
  | nil => left; rfl
  | cons d e =>
    simp only
    split
    · rename_i hc
      simp only [Bool.and_eq_true, decide_eq_true_eq] at hc
      right; exact ⟨e, by rw [hc.1], rfl⟩
    · left; rfl

/-- dots-then-`e` is stable under the readings -/
theorem shape_alist {v : Text} {e : List Text} (df : DotFree e)
    (h : ∃ k, segs v = List.replicate k segDot ++ e) : ∃ k, alist v = List.replicate k segDot ++ e := by
  obtain ⟨k, hk⟩ := h
  rcases alist_cases v with ha | ⟨r, hr, ha⟩
  · exact ⟨k, ha ▸ hk⟩
  · rw [ha]
    cases k with
    | zero =>
      simp only [List.replicate, List.nil_append] at hk
      rw [hk] at hr
      exact absurd (hr ▸ List.mem_cons_self) df.1
    | succ k =>
      rw [hk] at hr
      simp only [List.replicate_succ, List.cons_append, List.cons.injEq, true_and] at hr
      exact ⟨k, hr.symm⟩

theorem pathText_append {a b : Text} (ha : PathText a) (hb : PathText b) : PathText (a ++ b) := by
  intro c hc
  rcases List.mem_append.mp hc with h | h
  · exact ha c h
  · exact hb c h

theorem pathText_lit_slash : PathText [cSlash] := by intro c hc; simp at hc; subst hc; decide
theorem pathText_lit_dotslash : PathText [cDot, cSlash] := by
  intro c hc; simp at hc; rcases hc with rfl | rfl <;> decide
theorem pathText_lit_ss : PathText [cSlash, cSlash] := by
  intro c hc; simp at hc; subst hc; decide

theorem pathText_pushView (anch fa atStart : Bool) (v s : Text) (hv : PathText v) (hs : PathText s) :
    PathText (pushView anch fa atStart v s) := by
  unfold pushView
  simp only []
  have hv1 : PathText (if anch && v.isEmpty then [cSlash] else v) := by
    split
    · exact pathText_lit_slash
    · exact hv
  generalize (if anch && v.isEmpty then [cSlash] else v) = v1 at hv1
  split
  · split
    · exact pathText_append (pathText_append hv1 pathText_lit_dotslash) hs
    · exact pathText_append hv1 hs
  · split
    · exact pathText_append pathText_lit_ss hs
    · exact pathText_append hv1 (pathText_append (a := [cSlash]) pathText_lit_slash hs)

theorem pathText_take (v : Text) (k : Nat) (hv : PathText v) : PathText (v.take k) :=
  fun c hc => hv c (List.mem_of_mem_take hc)

theorem pathText_dotdot : PathText [cDot, cDot] := by
  intro c hc; simp at hc; subst hc; decide

theorem pathText_popView (anch fa atStart : Bool) (v : Text) (hv : PathText v) :
    PathText (popView anch fa atStart v) := by
  unfold popView
  split
  · exact pathText_pushView _ _ _ _ _ hv pathText_dotdot
  · split
    · simp only []
      generalize (if isAbs v = true then 1 else 0) = fso
      split
      · exact pathText_append (pathText_take _ _ hv) pathText_lit_dotslash
      · exact pathText_take _ _ hv
    · exact hv

theorem isAbs_pushView (anch fa atStart : Bool) (v s : Text) (hv : isAbs v = true) :
    isAbs (pushView anch fa atStart v s) = true := by
  unfold pushView
  have hne : v.isEmpty = false := by cases v <;> simp_all [isAbs]
  simp only [hne, Bool.and_false, Bool.false_eq_true, if_false]
  obtain ⟨c, r, rfl⟩ : ∃ c r, v = c :: r := by
    cases v with
    | nil => simp [isAbs] at hv
    | cons c r => exact ⟨c, r, rfl⟩
  split
  · split <;> simpa [isAbs] using hv
  · split
    · rfl
    · simpa [isAbs] using hv

/-- dots then `e`, with one more at the end -/
theorem shape_snoc {L e : List Text} {s : Text} (h : ∃ k, L = List.replicate k segDot ++ e) :
    ∃ k, L ++ [s] = List.replicate k segDot ++ (e ++ [s]) := by
  obtain ⟨k, hk⟩ := h
  exact ⟨k, by rw [hk, List.append_assoc]⟩

theorem shape_dot {L e : List Text} (h : ∃ k, L = List.replicate k segDot ++ e) :
    ∃ k, segDot :: L = List.replicate k segDot ++ e := by
  obtain ⟨k, hk⟩ := h
  exact ⟨k + 1, by rw [hk, List.replicate_succ, List.cons_append]⟩

/-- **push appends to the normalised sequence** -/
theorem ainv_push (anch fa : Bool) (v s : Text) (e : List Text) (inv : AInv v e)
    (hs : cSlash ∉ s) (hpt : PathText s) (hd : s ≠ segDot) (hdd : s ≠ segDotDot) :
    AInv (pushView anch fa false v s) (e ++ [s]) := by
  refine ⟨isAbs_pushView _ _ _ _ _ inv.abs, pathText_pushView _ _ _ _ _ inv.pt hpt, ?_, ?_⟩
  · refine ⟨?_, ?_⟩
    · intro hm
      rcases List.mem_append.mp hm with h | h
      · exact inv.df.1 h
      · simp at h; exact hd h.symm
    · intro hm
      rcases List.mem_append.mp hm with h | h
      · exact inv.df.2 h
      · simp at h; exact hdd h.symm
  · rcases pushView_realises anch fa false v s hs with h | h
    · rcases realises_cases h with h | h
      · rw [h]; exact shape_snoc inv.shape
      · rw [h]; exact shape_dot (shape_snoc inv.shape)
    · rcases realises_cases h with h | h
      · rw [h]; exact shape_snoc (shape_alist inv.df inv.shape)
      · rw [h]; exact shape_dot (shape_snoc (shape_alist inv.df inv.shape))

theorem getLast?_shape {L e : List Text} (df : DotFree e) (h : ∃ k, L = List.replicate k segDot ++ e) :
    L.getLast? ≠ some segDotDot := by
  obtain ⟨k, hk⟩ := h
  intro hl
  have hm : segDotDot ∈ L := List.mem_of_getLast? hl
  rw [hk] at hm
  rcases List.mem_append.mp hm with h | h
  · have := List.eq_of_mem_replicate h
    exact absurd this (by decide)
  · exact df.2 h

theorem shape_dropLast {L e : List Text} (h : ∃ k, L = List.replicate k segDot ++ e) :
    ∃ k, L.dropLast = List.replicate k segDot ++ e.dropLast := by
  obtain ⟨k, hk⟩ := h
  by_cases he : e = []
  · subst he
    refine ⟨k - 1, ?_⟩
    rw [hk]
    simp only [List.append_nil, List.dropLast_nil]
    cases k with
    | zero => rfl
    | succ k =>
      rw [← List.replicate_append_replicate (n := k) (m := 1)] 
      simp
  · exact ⟨k, by rw [hk, List.dropLast_append_of_ne_nil he]⟩

theorem dotFree_dropLast {e : List Text} (df : DotFree e) : DotFree e.dropLast :=
  ⟨fun h => df.1 ((List.dropLast_sublist e).subset h), fun h => df.2 ((List.dropLast_sublist e).subset h)⟩

/-- **pop removes the last of the normalised sequence** -/
theorem ainv_pop (anch fa : Bool) (v : Text) (e : List Text) (inv : AInv v e) :
    AInv (popView anch fa false v) e.dropLast := by
  have habs : isAbs (popView anch fa false v) = true := by
    have hl : Path.last v ≠ some [cDot, cDot] := by
      rw [last_eq_getLast v inv.pt]; exact getLast?_shape inv.df inv.shape
    have hrel : Path.is_relative v = false := by simp [Path.is_relative, is_absolute_eq, inv.abs]
    have h1 : ((Path.is_empty v && Path.is_relative v && !anch) || Path.last v == some [cDot, cDot]) = false := by
      simp [hrel, hl]
    by_cases hne : Path.is_empty v = true
    · unfold popView
      rw [h1]
      simp [hne, inv.abs]
    · have hne' : Path.is_empty v = false := by simpa using hne
      rw [popView_eq_popBody anch fa false v h1 hne', (popBody_realises v hne').2]
      exact inv.abs
  refine ⟨habs, pathText_popView _ _ _ _ inv.pt, dotFree_dropLast inv.df, ?_⟩
  have hlp : ∀ L : List Text, (∃ k, L = List.replicate k segDot ++ e) →
      listPop (isAbs v || anch) L = L.dropLast := by
    intro L hL
    unfold listPop
    have h1 : (L.getLast? == some segDotDot) = false := by
      have := getLast?_shape inv.df hL
      simpa using this
    simp [inv.abs, h1]
  rcases popView_realises anch fa false v inv.pt with h | h
  · rw [hlp _ inv.shape] at h
    rcases realises_cases h with h | h
    · rw [h]; exact shape_dropLast inv.shape
    · rw [h]; exact shape_dot (shape_dropLast inv.shape)
  · rw [hlp _ (shape_alist inv.df inv.shape)] at h
    rcases realises_cases h with h | h
    · rw [h]; exact shape_dropLast (shape_alist inv.df inv.shape)
    · rw [h]; exact shape_dot (shape_dropLast (shape_alist inv.df inv.shape))

/-! ## the loop of `symbolic_append` -/

/-- the list the loop computes -/
def walk (e : List Text) (ss : List Text) : List Text :=
  ss.foldl (fun e s => (listSymPush true e s).1) e

def lastDot (ss : List Text) : Bool :=
  match ss.getLast? with
  | some s => s == segDot || s == segDotDot
  | none => false

theorem listPop_dotFree {e : List Text} (df : DotFree e) : listPop true e = e.dropLast := by
  unfold listPop
  have h1 : (e.getLast? == some segDotDot) = false := by
    have : e.getLast? ≠ some segDotDot := fun hl => df.2 (List.mem_of_getLast? hl)
    simpa using this
  simp [h1]

theorem is_empty_segs {v : Text} (h : Path.is_empty v = true) : segs v = [] := by
  rcases is_empty_cases h with e | e <;> subst e
  · rfl
  · exact segs_root

theorem ainv_step (anch fa : Bool) (v s : Text) (e : List Text) (inv : AInv v e)
    (hs : cSlash ∉ s) (hpt : PathText s)
    (hskip : (s != segDot && s != segDotDot && s.isEmpty && e.isEmpty) = false) :
    AInv (symPushView anch fa false v s).1 (listSymPush true e s).1 ∧
      (symPushView anch fa false v s).2 = (s == segDot || s == segDotDot) := by
  unfold symPushView listSymPush
  by_cases h1 : s = segDot
  · subst h1
    simp only [segDot, beq_self_eq_true, if_true]
    exact ⟨inv, by simp⟩
  · have h1' : (s == [cDot]) = false := by simpa [segDot] using h1
    have h1'' : (s == segDot) = false := by simpa using h1
    simp only [h1', h1'', Bool.false_eq_true, if_false, Bool.false_or]
    by_cases h2 : s = segDotDot
    · subst h2
      simp only [segDotDot, beq_self_eq_true, if_true]
      refine ⟨?_, trivial⟩
      have hv : (v == [cDot]) = false := by
        have : v ≠ [cDot] := by intro hv; have := inv.abs; rw [hv] at this; simp [isAbs, cDot, cSlash] at this
        simpa using this
      simp only [hv, Bool.false_eq_true, if_false]
      have he : (e == [segDot]) = false := by
        have : e ≠ [segDot] := fun h => inv.df.1 (h ▸ List.mem_cons_self)
        simpa using this
      simp only [he, Bool.false_eq_true, if_false]
      have := ainv_pop anch fa v e inv
      rw [← listPop_dotFree inv.df] at this
      exact this
    · have h2' : (s == [cDot, cDot]) = false := by simpa [segDotDot] using h2
      have h2'' : (s == segDotDot) = false := by simpa using h2
      simp only [h2', h2'', Bool.false_eq_true, if_false]
      have hsk : (s.isEmpty && e.isEmpty) = false := by
        simpa [h1, h2] using hskip
      simp only [hsk, Bool.false_eq_true, if_false]
      by_cases h3 : (!s.isEmpty || !Path.is_empty v) = true
      · simp only [h3, if_true]
        exact ⟨ainv_push anch fa v s e inv hs hpt h1 h2, trivial⟩
      · exfalso
        have h3' : (!s.isEmpty || !Path.is_empty v) = false := by simpa using h3
        simp only [Bool.or_eq_false_iff, Bool.not_eq_false'] at h3'
        obtain ⟨k, hk⟩ := inv.shape
        rw [is_empty_segs h3'.2] at hk
        have he : e = [] := by
          have := congrArg List.length hk
          simp at this
          exact List.eq_nil_of_length_eq_zero (by omega)
        rw [h3'.1, he] at hsk
        simp at hsk

theorem ainv_loop (anch fa : Bool) (ss : List Text) : ∀ (v : Text) (o : Bool) (e : List Text), AInv v e →
    (∀ s ∈ ss, cSlash ∉ s ∧ PathText s) → symSkipsGo true e ss = false →
    AInv (symAppendGoView anch fa false v o ss).1 (walk e ss) ∧
      (symAppendGoView anch fa false v o ss).2 = (if ss = [] then o else lastDot ss) := by
  induction ss with
  | nil => intro v o e inv _ _; exact ⟨inv, rfl⟩
  | cons s ss ih =>
    intro v o e inv hall hsk
    simp only [symSkipsGo] at hsk
    have hskip : (s != segDot && s != segDotDot && s.isEmpty && e.isEmpty) = false := by
      by_cases hc : (s != segDot && s != segDotDot && s.isEmpty && e.isEmpty) = true
      · rw [hc] at hsk; simp at hsk
      · simpa using hc
    rw [hskip] at hsk
    simp only [Bool.false_eq_true, if_false] at hsk
    obtain ⟨hs, hpt⟩ := hall s List.mem_cons_self
    obtain ⟨i1, f1⟩ := ainv_step anch fa v s e inv hs hpt hskip
    obtain ⟨i2, f2⟩ := ih _ (symPushView anch fa false v s).2 _ i1
      (fun t ht => hall t (List.mem_cons_of_mem _ ht)) hsk
    simp only [symAppendGoView, walk, List.foldl_cons]
    refine ⟨i2, ?_⟩
    rw [f2, f1]
    cases ss with
    | nil => simp [lastDot]
    | cons t ts => simp [lastDot, List.getLast?_cons_cons]

/-! ## reading the final view -/

theorem foldl_nstep_dotFree (abs : Bool) (E : List Text) (df : DotFree E) :
    ∀ st, E.foldl (nstep abs) st = E.reverse ++ st := by
  induction E with
  | nil => intro st; rfl
  | cons s E ih =>
    intro st
    have h1 : s ≠ segDot := fun e => df.1 (e ▸ List.mem_cons_self)
    have h2 : s ≠ segDotDot := fun e => df.2 (e ▸ List.mem_cons_self)
    have dfE : DotFree E := ⟨fun h => df.1 (List.mem_cons_of_mem _ h), fun h => df.2 (List.mem_cons_of_mem _ h)⟩
    simp only [List.foldl_cons, nstep, h1, h2, if_false, ih dfE, List.reverse_cons, List.append_assoc,
      List.singleton_append]

theorem nsegsOf_dotFree (abs : Bool) (E : List Text) (df : DotFree E) : nsegsOf abs E = E := by
  unfold nsegsOf
  rw [foldl_nstep_dotFree abs E df]
  simp

theorem nsegsOf_dots (abs : Bool) (k : Nat) (L : List Text) :
    nsegsOf abs (List.replicate k segDot ++ L) = nsegsOf abs L := by
  induction k with
  | zero => rfl
  | succ k ih => rw [List.replicate_succ, List.cons_append, nsegsOf_cons_dot, ih]

theorem ainv_nsegs {v : Text} {E : List Text} (inv : AInv v E) : nsegs v = E := by
  obtain ⟨k, hk⟩ := inv.shape
  unfold nsegs
  rw [hk, nsegsOf_dots, nsegsOf_dotFree _ _ inv.df]

theorem ainv_noSlash {v : Text} {E : List Text} (inv : AInv v E) : ∀ s ∈ E, cSlash ∉ s := by
  obtain ⟨k, hk⟩ := inv.shape
  intro s hs
  exact segs_no_slash v s (by rw [hk]; exact List.mem_append_right _ hs)

/-- the last two statements of the relative branch: `normalize`, then the lone empty segment is
cleared -/
def finalize (v : Text) : Text :=
  let v3 := normView true false v
  if v3 == [cSlash, cDot, cSlash] || v3 == [cDot, cSlash] then clearView v3 else v3

theorem finalize_ainv {v : Text} {E : List Text} (inv : AInv v E) : finalize v = cSlash :: joinSlash E := by
  unfold finalize normView
  have hrel : Path.is_relative v = false := by simp [Path.is_relative, is_absolute_eq, inv.abs]
  simp only [normalized_segments_eq v inv.pt, joinSegs_eq, ainv_nsegs inv, hrel, inv.abs, if_true,
    Bool.false_or, Bool.not_true, Bool.false_and, Bool.or_false]
  have hns := ainv_noSlash inv
  have hnd := inv.df.1
  cases E with
  | nil => simp [joinSlash, clearView, isAbs, cSlash, cDot]
  | cons first rest =>
    by_cases hsh : (first.isEmpty && (first :: rest).length == 1) = true
    · simp only [Bool.and_eq_true] at hsh
      have hf : first = [] := by simpa using hsh.1
      have hr : rest = [] := by
        have := hsh.2
        simp only [List.length_cons, beq_iff_eq] at this
        cases rest with
        | nil => rfl
        | cons x xs => simp at this
      subst hf; subst hr
      simp [joinSlash, clearView, isAbs, cSlash, cDot]
    · have hsh' : (first.isEmpty && (first :: rest).length == 1) = false := by simpa using hsh
      simp only [hsh', Bool.false_eq_true, if_false, List.nil_append]
      have hnds : ([cSlash] ++ joinSlash (first :: rest) == [cSlash, cDot, cSlash]) = false := by
        have := joinSlash_ne_dotSlash (first :: rest) hns hnd
        simp only [List.singleton_append, beq_eq_false_iff_ne, ne_eq, List.cons.injEq, true_and]
        exact this
      have hnds2 : ([cSlash] ++ joinSlash (first :: rest) == [cDot, cSlash]) = false := by
        simp [cSlash, cDot]
      simp only [List.singleton_append] at hnds hnds2
      simp only [hnds, hnds2, Bool.or_self, Bool.false_eq_true, if_false, List.singleton_append]

/-- **the relative branch on views**: appending the reference's segments to the (normalised)
directory of the base, normalising and clearing the lone empty segment writes `/` followed by the
walked list, closed by an empty segment when the reference ends in a dot segment -/
theorem relative_view (anch : Bool) (v0 : Text) (e0 : List Text) (ss : List Text) (inv : AInv v0 e0)
    (hall : ∀ s ∈ ss, cSlash ∉ s ∧ PathText s) (hsk : symSkipsGo true e0 ss = false) :
    finalize (symAppendView anch true false v0 ss) =
      cSlash :: joinSlash (walk e0 ss ++ (if lastDot ss && !(walk e0 ss).isEmpty then [[]] else [])) := by
  obtain ⟨i1, f1⟩ := ainv_loop anch true ss v0 false e0 inv hall hsk
  have ho : (symAppendGoView anch true false v0 false ss).2 = lastDot ss := by
    rw [f1]
    split
    · rename_i h; subst h; rfl
    · rfl
  unfold symAppendView closeView
  rw [ho]
  generalize (symAppendGoView anch true false v0 false ss).1 = v' at i1
  generalize walk e0 ss = E at i1
  by_cases hc : (lastDot ss && !Path.is_empty v') = true
  · simp only [hc, if_true]
    have i2 := ainv_push anch true v' [] E i1 (by simp) (by intro c hc; cases hc) (by decide) (by decide)
    rw [finalize_ainv i2]
    simp only [Bool.and_eq_true] at hc
    rw [hc.1]
    cases E with
    | nil => simp [joinSlash]
    | cons a b => simp
  · have hc' : (lastDot ss && !Path.is_empty v') = false := by simpa using hc
    simp only [hc', Bool.false_eq_true, if_false]
    rw [finalize_ainv i1]
    by_cases ho' : lastDot ss = true
    · rw [ho'] at hc'
      have hem : Path.is_empty v' = true := by simpa using hc'
      obtain ⟨k, hk⟩ := i1.shape
      rw [is_empty_segs hem] at hk
      have he : E = [] := by
        have := congrArg List.length hk
        simp at this
        exact List.eq_nil_of_length_eq_zero (by omega)
      subst he; simp
    · have : lastDot ss = false := by simpa using ho'
      simp [this]

theorem symAppendView_ainv (anch fa : Bool) (v0 : Text) (e0 : List Text) (ss : List Text) (inv : AInv v0 e0)
    (hall : ∀ s ∈ ss, cSlash ∉ s ∧ PathText s) (hsk : symSkipsGo true e0 ss = false) :
    ∃ E2, AInv (symAppendView anch fa false v0 ss) E2 := by
  obtain ⟨i1, _⟩ := ainv_loop anch fa ss v0 false e0 inv hall hsk
  unfold symAppendView closeView
  split
  · exact ⟨_, ainv_push anch fa _ [] _ i1 (by simp) (by intro c hc; cases hc) (by decide) (by decide)⟩
  · exact ⟨_, i1⟩

end IrefVerif.Lemmas
