import IrefVerif.Oracle
import IrefVerif.Model.Reference

/-!
# Class predicates of the known findings (`/verif/known_findings.json`)

One decidable predicate per *open* finding.  The driver evaluates them on every failing
case; a failure is reported as `KNOWN-FINDING` only when the predicate of an open finding of
the same property holds for it, and the same predicates are the excluded hypotheses of the
`…_partial` theorems, so theorem and suppression cannot drift apart.
-/

namespace IrefVerif.Findings
open IrefVerif IrefVerif.Spec IrefVerif.Oracle

/-- F15 (C06, relative-path branch of `resolve`): `symbolic_append` skips an empty segment that
it has to push onto an empty path (`!segment.is_empty() || !self.is_empty()`), so an empty
segment that follows only dot segments is lost: `s://h/` + `.//a` gives `s://h/a`, RFC `s://h//a`. -/
def symSkipsGo (abs : Bool) : List Text → List Text → Bool
  | _, [] => false
  | e, s :: ss =>
    if s != segDot && s != segDotDot && s.isEmpty && e.isEmpty then true
    else symSkipsGo abs (listSymPush abs e s).1 ss

def f15 (base ref : Text) : Bool :=
  let b := split base
  let r := split ref
  r.scheme.isNone && r.authority.isNone && !r.path.isEmpty && !isAbs r.path &&
    (let abs := isAbs b.path || b.authority.isSome
     let e0 := if b.authority.isSome && b.path.isEmpty then [] else nsegs (parentOrEmpty b.path)
     symSkipsGo abs e0 (segs r.path))

/-- F12 (C15): `relative_to` ignores a difference in authority *presence*, inherits the base's
query, and cannot express a path that is a proper prefix of the base's directory, among others;
the class is the set of pairs on which the (modelled, correspondence-checked) algorithm does not
round-trip.  Structural sub-classes with witnesses are listed in `known_findings.json`. -/
def f12 (a b : Text) : Bool :=
  match Model.Ref.relative_to a b with
  | none => false
  | some r =>
    match Model.Ref.resolve r b with
    | none => false
    | some back => key back != key a

/-- F13 (C19): `as_pct_str()` hands the component to `pct_str::PctStr`, whose `chars`, `len`,
`decode` and `== str` unwrap a lenient UTF-8 decoder: they panic when the decoded octets are
not UTF-8 and accept overlong forms.  The class: the decoded octets are not strict UTF-8. -/
def f13 (x : Text) : Bool := (utf8Decode? (pctDecode x)).isNone

end IrefVerif.Findings
