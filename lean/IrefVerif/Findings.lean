import IrefVerif.Oracle
import IrefVerif.Model.Reference

/-!
# Class predicates of the known findings (`/verif/known_findings.json`)

One decidable predicate per *open* finding.  The driver evaluates them on every failing
case; a failure is reported as `KNOWN-FINDING` only when the predicate of an open finding of
the same property holds for it, and the same predicates are the excluded hypotheses of the
`…_partial` theorems, so theorem and suppression cannot drift apart.
-/

namespace IrefVerif.Findings
open IrefVerif IrefVerif.Spec IrefVerif.Oracle

/-- F15 (C06, relative-path branch of `resolve`): `symbolic_append` skips an empty segment that
it has to push onto an empty path (`!segment.is_empty() || !self.is_empty()`), so an empty
segment that follows only dot segments is lost: `s://h/` + `.//a` gives `s://h/a`, RFC `s://h//a`. -/
def symSkipsGo (abs : Bool) : List Text → List Text → Bool
  | _, [] => false
  | e, s :: ss =>
    if s != segDot && s != segDotDot && s.isEmpty && e.isEmpty then true
    else symSkipsGo abs (listSymPush abs e s).1 ss

def f15 (base ref : Text) : Bool :=
  let b := split base
  let r := split ref
  r.scheme.isNone && r.authority.isNone && !r.path.isEmpty && !isAbs r.path &&
    (let abs := isAbs b.path || b.authority.isSome
     let e0 := if b.authority.isSome && b.path.isEmpty then [] else nsegs (parentOrEmpty b.path)
     symSkipsGo abs e0 (segs r.path))

/-- F12 (C15), what is left of it after the repair of `relative_to`: the property asks for a
reference that *resolves* to something `==` to `a`, and resolution only produces paths without dot
segments.  Two kinds of target are `==` to no such path at all, whatever `relative_to` returns:
a path whose normalised segments are one lone empty segment (`s://h//.`, `s:.//.`: `==` reads
`[""]`; RFC 3986 5.2.4 writes `//`, which reads `["", ""]`, or nothing), and a relative path ending
in a `..` that cannot be resolved (`s:./..`: `==` reads `[".."]`, 5.2.4 writes `../`, which reads
`["..", ""]`).  The class depends on `a` only. -/
def f12 (a _b : Text) : Bool :=
  let p := (split a).path
  nsegs p == [[]] || (!isAbs p && (nsegs p).getLast? == some segDotDot)

/-- F13 (C19): `as_pct_str()` hands the component to `pct_str::PctStr`, whose `chars`, `len`,
`decode` and `== str` unwrap a lenient UTF-8 decoder: they panic when the decoded octets are
not UTF-8 and accept overlong forms.  The class: the decoded octets are not strict UTF-8. -/
def f13 (x : Text) : Bool := (utf8Decode? (pctDecode x)).isNone

end IrefVerif.Findings
