import IrefVerif.Model.Ops
import IrefVerif.Model.DataUrl

/-!
# The model's answers for `convert`, `routes`, `views`, `dataurl`, `pct`, `ptr`
-/

namespace IrefVerif.Model
open IrefVerif IrefVerif.Spec
open IrefVerif.Model.Parse (Range slice)

def kv (l : List (String × String)) : String :=
  " ".intercalate (l.map fun p => p.1 ++ "=" ++ p.2)

/-- borrowed conversion returning `Option` -/
def optTok (b : Bool) : String := if b then "ok" else "none"
/-- conversion returning `Result` whose error hands the value back -/
def resTok (b : Bool) : String := if b then "ok" else "err"

/-- `convert` (C13): every conversion is the identity on the text; the ones that can fail
succeed exactly when a scheme is present (reference → full) or when the URI automaton
accepts the text (IRI family → URI family). -/
def convertLine (kind : String) (x : Text) : String :=
  match kind with
  | "uri" =>
    if !accepts .uri x then "invalid" else
    kv [("as_uri_ref", "ok"), ("as_iri", "ok"), ("as_iri_ref", "ok"), ("asref_uri_ref", "ok"),
        ("borrow_iri", "ok"), ("into_uri_ref", "ok"), ("into_iri", "ok"), ("into_iri_ref", "ok"),
        ("from_buf", "ok"), ("iri_accepts", "ok"), ("iri_ref_accepts", "ok")]
  | "uriref" =>
    if !accepts .uriRef x then "invalid" else
    let s := (Ref.scheme_opt x).isSome
    kv [("as_uri", optTok s), ("as_iri", optTok s), ("as_iri_ref", "ok"), ("try_from_uri", resTok s),
        ("try_from_iri", resTok s), ("from_iri_ref", "ok"), ("try_into_uri", resTok s),
        ("try_into_iri", resTok s), ("into_iri_ref", "ok"), ("tryfrom_buf_uri", resTok s),
        ("tryfrom_buf_iri", resTok s), ("from_buf_iri_ref", "ok"), ("iri_ref_accepts", "ok")]
  | "iri" =>
    if !accepts .iri x then "invalid" else
    let u := accepts .uri x
    let ur := accepts .uriRef x
    kv [("as_iri_ref", "ok"), ("as_uri", optTok u), ("as_uri_ref", optTok ur), ("try_from_uri", resTok u),
        ("try_from_uri_ref", resTok ur), ("from_iri_ref", "ok"), ("into_iri_ref", "ok"),
        ("try_into_uri", resTok u), ("try_into_uri_ref", resTok ur), ("from_buf", "ok")]
  | "iriref" =>
    if !accepts .iriRef x then "invalid" else
    let s := (Ref.scheme_opt x).isSome
    let u := accepts .uri x
    let ur := accepts .uriRef x
    kv [("as_iri", optTok s), ("as_uri", optTok u), ("as_uri_ref", optTok ur), ("try_from_iri", resTok s),
        ("try_from_uri", resTok u), ("try_from_uri_ref", resTok ur), ("try_into_iri", resTok s),
        ("try_into_uri", resTok u), ("try_into_uri_ref", resTok ur), ("tryfrom_buf_iri", resTok s),
        ("tryfrom_buf_uri", resTok u), ("tryfrom_buf_uri_ref", resTok ur)]
  | _ => "bad-op"

/-- `routes` (C14): every textual route out is the identity on the text -/
def routesLine (k : Kind) (x : Text) : String :=
  if accepts k x && (utf8Decode? x).isSome then "1" else "invalid"

/-- `views` (C08) -/
def viewsLine (f : Oracle.Fam) (x : Text) : String :=
  match f with
  | .u => if accepts .uri x then "hash=same lookup=111111111 cross=1" else "invalid"
  | .i => if accepts .iri x then "hash=same lookup=11111 cross=1" else "invalid"

/-- `dataurl` (C18) -/
def dataurlLine (x : Text) : String :=
  if !accepts .uri x then "0"
  else match DataUrl.parse x with
    | none => "0"
    | some d =>
      let mt := DataUrl.ownedMediaType d x
      let data := DataUrl.ownedData d x
      let dec := match DataUrl.decoded d.base_64 data with
        | some t => hex t
        | none => "b64err"
      -- the borrowed accessors re-scan; they must agree with the offsets (otherwise the
      -- harness prints VIEWS-DIFF and the lines differ)
      let agree := DataUrl.borrowedMediaType x == some mt && DataUrl.borrowedIsBase64 x == some d.base_64
        && DataUrl.borrowedData x == some data
      if agree then s!"{ohex mt} {b01 d.base_64} {hex data} {dec}" else "VIEWS-DIFF"

/-! ## percent-decoded views (C19) -/

def hexNum (n : Nat) : String := String.ofList (Nat.toDigits 16 n)

def pctLine (f : Oracle.Fam) (kind : String) (x : Text) : String :=
  if !okArg f kind x then "invalid" else
  let bytes := match Cmp.pctBytes x with | some b => hex b | none => "PANIC"
  let cs := Cmp.charsAll x
  let chars := match cs with
    | some l => ".".intercalate (l.map hexNum)
    | none => "PANIC"
  let len := match cs with | some l => toString l.length | none => "PANIC"
  let dec := match cs with | some l => hex (utf8Encode l) | none => "PANIC"
  let eqd := match cs with
    | some l =>
      -- `PctStr == str` decodes the percent-string again and compares char by char
      (match Cmp.eqLoop (Cmp.chars x) (l.map Cmp.Item.ch) with
       | some b => b01 b
       | none => "PANIC")
    | none => "PANIC"
  s!"bytes={bytes} chars=[{chars}] len={len} decode={dec} eqdecoded={eqd} text=1"

/-- `pctref` (C19): the octet views of all components of a whole reference, reached through
`parts()`, `Authority::parts()` and the segment iterators -/
def pctrefLine (f : Oracle.Fam) (x : Text) : String :=
  if !okArg f "ref" x then "invalid" else
  let r := Cmp.refParts x
  let oct (t : Text) : String := match Cmp.pctBytes t with | some b => hex b | none => "PANIC"
  let ooct (t : Option Text) : String := match t with | some t => oct t | none => "-"
  let ap := r.authority.map Cmp.authParts
  let ui := ooct (ap.bind fun a => a.1)
  let host := ooct (ap.map fun a => a.2.1)
  let segs := (Path.segmentList r.path).map oct
  let rsegs := (Path.segmentListRev r.path).map oct
  s!"ui={ui} host={host} segs=[{",".intercalate segs}] rev={b01 (rsegs.reverse == segs)} query={ooct r.query} fragment={ooct r.fragment}"

/-! ## provenance (C20): every result is a range of the input, or one of the constants -/

def locR (r : Range) : String := s!"{r.1}+{r.2 - r.1}"
def olocR : Option Range → String
  | some r => locR r
  | none => "-"
def constLoc (t : Text) : String := "const:" ++ hex t
/-- an empty constant cannot be told from an empty sub-slice of an empty input -/
def constLocIn (x t : Text) : String := if x.isEmpty && t.isEmpty then "0+0" else constLoc t

/-- shift a range relative to the path to one relative to the whole text -/
def shift (o : Nat) (r : Range) : Range := (o + r.1, o + r.2)

def ptrLine (f : Oracle.Fam) (full : Bool) (x : Text) : String :=
  let k := if full then "full" else "ref"
  if !okArg f k x then "invalid" else
  let (s, a, p, q, fr) : Option Range × Option Range × Range × Option Range × Option Range :=
    if full then
      let r := Parse.parts x 0
      (some r.scheme, r.authority, r.path, r.query, r.fragment)
    else
      let r := Parse.reference_parts x 0
      (r.scheme, r.authority, r.path, r.query, r.fragment)
  let auth := a.map fun ar => (ar, Authority.parts (slice x ar))
  let ui := auth.bind fun (ar, ap) => ap.user_info.map (shift ar.1)
  let host := auth.map fun (ar, ap) => shift ar.1 ap.host
  let port := auth.bind fun (ar, ap) => ap.port.map (shift ar.1)
  let pt := slice x p
  let o := p.1
  let empty := Path.is_empty pt
  let first := if empty then none else some (shift o (Path.segment_at pt (Path.first_segment_offset pt)).1)
  let last := if empty then none else (Path.previous_segment_from pt (pt.length + 1)).map fun r => shift o r.1
  let fnm := match Path.Segments.next_back pt (Path.segments pt) with
    | (some sg, _) =>
      if sg.isEmpty then none
      else (Path.previous_segment_from pt (pt.length + 1)).map fun r => shift o r.1
    | (none, _) => none
  -- directory: a prefix of the path, or the constant EMPTY
  let dirT := Path.directory pt
  let dir :=
    if pt.isEmpty then locR (o, o)
    else if dirT.isEmpty then constLocIn x [] else locR (o, o + dirT.length)
  -- parent: a prefix, or one of the constants `/`, `/./`
  let par := match Path.parent pt with
    | none => "-"
    | some t =>
      if t == [cSlash] && (Path.lastSlashFrom pt (pt.length - 1) == 0) then constLoc [cSlash]
      else if t == [cSlash, cDot, cSlash] && Path.lastSlashFrom pt (pt.length - 1) == 1 then constLoc t
      else locR (o, o + t.length)
  let poe := match Path.parent pt with
    | none => if Path.is_absolute pt then constLoc [cSlash] else constLocIn x []
    | some _ => par
  let base := Ref.base x
  let nseg := (Path.segmentList pt).length
  -- the stand-alone accessors (each scans the text again)
  let as_ := if full then some (Parse.scheme x 0) else Parse.find_scheme x 0
  let aa := (Parse.find_authority x 0).toOption
  let apth := Parse.find_path x 0
  let aq := (Parse.find_query x 0).toOption
  let af := (Parse.find_fragment x 0).toOption
  -- … and those of the authority
  let aui := a.bind fun ar => (Parse.find_user_info (slice x ar) 0).map (shift ar.1)
  let ahost := a.map fun ar => shift ar.1 (Parse.find_host (slice x ar) 0)
  let aport := a.bind fun ar => (Parse.find_port (slice x ar) 0).map (shift ar.1)
  let acc := s!"ascheme={olocR as_} aauthority={olocR aa} apath={locR apth} aquery={olocR aq} afragment={olocR af} auserinfo={olocR aui} ahost={olocR ahost} aport={olocR aport}"
  s!"whole={locR (0, x.length)} scheme={olocR s} authority={olocR a} path={locR p} query={olocR q} fragment={olocR fr} userinfo={olocR ui} host={olocR host} port={olocR port} first={olocR first} last={olocR last} fn={olocR fnm} dir={dir} par={par} poe={poe} base={locR (0, base.length)} nseg={nseg} segs_inside=1 allocs=0 {acc}"

end IrefVerif.Model
