import IrefVerif.Model.Path

/-!
# Model of `crates/core/src/common/path_mut.rs`

`PathMutImpl { buffer, start, end, follows_authority, anchored }` as a record that owns
the buffer; every `&mut self` method returns the new record, or `none` for a panic.
-/

namespace IrefVerif.Model
open IrefVerif.Spec (Text cSlash cDot)
open IrefVerif.Model.Parse (Range slice)

structure PathMut where
  buffer : Text
  start : Nat
  «end» : Nat
  follows_authority : Bool
  anchored : Bool
  deriving DecidableEq, Repr

namespace PathMut

/-- `PathMutImpl::new` -/
def new (buffer : Text) (start «end» : Nat) : PathMut :=
  let fa := (Parse.find_authority (buffer.take start) 0).toOption.isSome
  { buffer, start, «end», follows_authority := fa, anchored := fa }

/-- `PathMutImpl::from_path` -/
def from_path (path : Text) : PathMut :=
  { buffer := path, start := 0, «end» := path.length, follows_authority := true, anchored := false }

/-- `Deref`: the path the handle views -/
def view (h : PathMut) : Text := slice h.buffer (h.start, h.«end»)

def first_segment_offset (h : PathMut) : Nat :=
  if Path.is_absolute h.view then h.start + 1 else h.start

/-- `replace(buffer, range, content)` then the handle's `end` update -/
def spliced (h : PathMut) (r : Range) (content : Text) (newEnd : Nat) : Option PathMut :=
  (splice h.buffer r content).map fun b => { h with buffer := b, «end» := newEnd }

def endsWithSlashDotSlash (p : Text) : Bool :=
  match p.reverse with
  | a :: b :: c :: _ => a == cSlash && b == cDot && c == cSlash
  | _ => false

def push (h0 : PathMut) (segment : Text) : Option PathMut := do
  -- VALIDITY: an empty path after an authority first becomes `/`
  let h ← if h0.anchored && h0.start == h0.«end» then
      h0.spliced (h0.«end», h0.«end») [cSlash] (h0.«end» + 1)
    else some h0
  let empty := Path.is_empty h.view
  let disambiguate := empty &&
    ((h.start == 0 && Parse.first_segment_contains_colon segment) || segment.isEmpty)
  if disambiguate then
    let start := h.first_segment_offset
    h.spliced (start, start) ([cDot, cSlash] ++ segment) (h.«end» + 2 + segment.length)
  else if empty then
    h.spliced (h.«end», h.«end») segment (h.«end» + segment.length)
  else
    let bytes := h.view
    let start_offset := if h.follows_authority && bytes == [cSlash, cDot, cSlash] then 2 else 0
    let start := h.«end» - start_offset
    h.spliced (start, h.«end») (cSlash :: segment) (h.«end» + (1 + segment.length) - start_offset)

/-- `pop`; the Boolean result of the Rust method is not modelled (the public wrappers drop it) -/
def pop (h : PathMut) : Option PathMut :=
  let is_empty := Path.is_empty h.view
  if (is_empty && Path.is_relative h.view && !h.anchored)
      || Path.last h.view == some [cDot, cDot] then
    h.push [cDot, cDot]
  else if !is_empty then
    let start := h.first_segment_offset
    -- `while i > start && buffer[i] != '/' { i -= 1 }` from `end - 1`
    let i := Path.scanBack h.buffer start (h.«end» - 1)
    if i == start && h.buffer.getD i 0 == cSlash then
      -- only the empty first segment remains: it is kept behind a `.` shield
      h.spliced (i, h.«end») [cDot, cSlash] (i + 2)
    else h.spliced (i, h.«end») [] i
  else some h

def clear (h : PathMut) : Option PathMut :=
  let start := h.first_segment_offset
  h.spliced (start, h.«end») [] start

/-- inner `symbolic_push`: new handle and the `open` flag -/
def symbolic_push (h : PathMut) (segment : Text) : Option (PathMut × Bool) :=
  if segment == [cDot] then some (h, true)
  else if segment == [cDot, cDot] then
    -- a lone `.` is the shield left behind by a popped segment: the path is empty
    match (if h.view == [cDot] then h.clear else some h) with
    | some h0 => (h0.pop).map fun h' => (h', true)
    | none => none
  else if !segment.isEmpty || !Path.is_empty h.view then (h.push segment).map fun h' => (h', false)
  else some (h, false)

def symbolicAppendGo : PathMut → Bool → List Text → Option (PathMut × Bool)
  | h, o, [] => some (h, o)
  | h, _, s :: ss =>
    match h.symbolic_push s with
    | some (h', o') => symbolicAppendGo h' o' ss
    | none => none

def symbolic_append (h : PathMut) (segs : List Text) : Option PathMut :=
  match symbolicAppendGo h false segs with
  | some (h', o) => if o && !Path.is_empty h'.view then h'.push [] else some h'
  | none => none

/-- the public wrapper `PathMut::symbolic_push` of `uri/path_mut.rs` / `iri/path_mut.rs` -/
def symbolic_push_pub (h : PathMut) (segment : Text) : Option PathMut :=
  match h.symbolic_push segment with
  | some (h', o) => if o && !Path.is_empty h'.view then h'.push [] else some h'
  | none => none

def joinSegs : List Text → Text
  | [] => []
  | [s] => s
  | s :: ss => s ++ cSlash :: joinSegs ss

def normalize (h : PathMut) : Option PathMut :=
  let relative := Path.is_relative h.view
  let segs := Path.normalized_segments h.view
  let shield : Text :=
    match segs with
    | first :: _ =>
      if (first.isEmpty && (relative || !h.follows_authority || segs.length == 1))
          || (relative && h.start == 0 && Parse.first_segment_contains_colon first)
      then [cDot, cSlash] else []
    | [] => []
  let buffer := shield ++ joinSegs segs
  let start := h.first_segment_offset
  h.spliced (start, h.«end») buffer (start + buffer.length)

end PathMut

namespace Path

/-- `PathImpl::normalized`: in-place normalisation of a copy, then the trailing `/` left by a
final dot segment -/
def normalized (p : Text) : Option Text := do
  let open_ := match (Segments.next_back p (segments p)).1 with
    | some s => s == [cDot] || s == [cDot, cDot]
    | none => false
  let h ← (PathMut.from_path p).normalize
  if open_ && !is_empty h.view then (h.push []).map (·.buffer) else some h.buffer

/-- `PathImpl::suffix` -/
def suffixGo : List Text → List Text → (Text → Text → Bool) → Option (List Text)
  | ss, [], _ => some ss
  | [], _ :: _, _ => none
  | s :: ss, p :: ps, eq => if eq s p then suffixGo ss ps eq else none

end Path
end IrefVerif.Model
