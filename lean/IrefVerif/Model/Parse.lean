import IrefVerif.Spec.Decompose

/-!
# Model of `crates/core/src/common/parse.rs`

Same function names, same results (ranges are `(start, end)` pairs of offsets into
`bytes`).  A Rust scanning loop `while i < len && p(bytes[i]) { i += 1 }` is rendered as
`i + spanLen p (bytes.drop i)`; the two small state machines are structural recursions over
the unread suffix with the state as a parameter.  Nothing here looks at validity: like the
Rust, these functions are total on arbitrary byte strings.
-/

namespace IrefVerif.Model.Parse
open IrefVerif.Spec (Text cColon cSlash cQuest cHash cAt cLBr cRBr)

abbrev Range := Nat × Nat

/-- number of leading symbols satisfying `p` -/
def spanLen (p : Nat → Bool) : Text → Nat
  | [] => 0
  | c :: l => if p c then spanLen p l + 1 else 0

def isAlpha (b : Nat) : Bool := (0x41 ≤ b && b ≤ 0x5A) || (0x61 ≤ b && b ≤ 0x7A)
def isDigit (b : Nat) : Bool := 0x30 ≤ b && b ≤ 0x39
def isSchemeChar (b : Nat) : Bool := isAlpha b || isDigit b || b == 0x2B || b == 0x2D || b == 0x2E

/-- `looks_like_scheme`: `prefix:suffix` with `prefix` a valid scheme -/
def looksLikeSchemeRest : Text → Bool
  | [] => false
  | b :: l => if b == cColon then true else if isSchemeChar b then looksLikeSchemeRest l else false

def looks_like_scheme (bytes : Text) : Bool :=
  match bytes with
  | [] => false
  | b :: l => if isAlpha b then looksLikeSchemeRest l else false

/-- `first_segment_contains_colon` -/
def first_segment_contains_colon : Text → Bool
  | [] => false
  | b :: l => if b == cColon then true else if b == cSlash then false else first_segment_contains_colon l

/-! ## `scheme_authority_or_path`, `authority_or_path` -/

inductive SAP | scheme | authority | path
  deriving DecidableEq, Repr

inductive SapState | start | schemeOrPath | path | secondSlash | authority

/-- result: component and the number of symbols consumed before the `break` -/
def sapGo : SapState → Text → SAP × Nat
  | q, [] => (match q with | .authority => .authority | _ => .path, 0)
  | q, c :: l =>
    let step : SAP ⊕ SapState :=
      match q with
      | .start =>
        if c == cColon then .inl .scheme
        else if c == cQuest || c == cHash then .inl .path
        else if c == cSlash then .inr .secondSlash
        else .inr .schemeOrPath
      | .schemeOrPath =>
        if c == cColon then .inl .scheme
        else if c == cQuest || c == cHash then .inl .path
        else if c == cSlash then .inr .path
        else .inr .schemeOrPath
      | .path =>
        if c == cQuest || c == cHash then .inl .path else .inr .path
      | .secondSlash =>
        if c == cSlash then .inr .authority
        else if c == cQuest || c == cHash then .inl .path
        else .inr .path
      | .authority =>
        if c == cSlash || c == cQuest || c == cHash then .inl .authority else .inr .authority
    match step with
    | .inl comp => (comp, 0)
    | .inr q' => let r := sapGo q' l; (r.1, r.2 + 1)

def scheme_authority_or_path (bytes : Text) (i : Nat) : SAP × Nat :=
  let r := sapGo .start (bytes.drop i)
  (r.1, i + r.2)

inductive AP | authority | path
  deriving DecidableEq, Repr

inductive ApState | start | secondSlash | path | authority

def apGo : ApState → Text → AP × Nat
  | q, [] => (match q with | .authority => .authority | _ => .path, 0)
  | q, c :: l =>
    let step : AP ⊕ ApState :=
      match q with
      | .start =>
        if c == cQuest || c == cHash then .inl .path
        else if c == cSlash then .inr .secondSlash
        else .inr .path
      | .path =>
        if c == cQuest || c == cHash then .inl .path else .inr .path
      | .secondSlash =>
        if c == cSlash then .inr .authority
        else if c == cQuest || c == cHash then .inl .path
        else .inr .path
      | .authority =>
        if c == cSlash || c == cQuest || c == cHash then .inl .authority else .inr .authority
    match step with
    | .inl comp => (comp, 0)
    | .inr q' => let r := apGo q' l; (r.1, r.2 + 1)

def authority_or_path (bytes : Text) (i : Nat) : AP × Nat :=
  let r := apGo .start (bytes.drop i)
  (r.1, i + r.2)

/-! ## scheme -/

def scheme (bytes : Text) (i : Nat) : Range :=
  (i, i + spanLen (fun c => c != cColon) (bytes.drop i))

/-- offset of the `:` that ends a scheme, if one comes before any `/ ? #` -/
def findSchemeGo : Text → Option Nat
  | [] => none
  | c :: l =>
    if c == cSlash || c == cQuest || c == cHash then none
    else if c == cColon then some 0
    else (findSchemeGo l).map (· + 1)

def find_scheme (bytes : Text) (i : Nat) : Option Range :=
  (findSchemeGo (bytes.drop i)).map fun k => (i, i + k)

/-! ## authority -/

/-- `Result<Range<usize>, usize>` -/
inductive Found
  | ok (r : Range)
  | err (pos : Nat)
  deriving DecidableEq, Repr

def Found.toOption : Found → Option Range
  | .ok r => some r
  | .err _ => none

def find_authority (bytes : Text) (i : Nat) : Found :=
  match scheme_authority_or_path bytes i with
  | (.scheme, scheme_end) =>
    match authority_or_path bytes (scheme_end + 1) with
    | (.authority, e) => .ok (scheme_end + 3, e)
    | (.path, _) => .err (scheme_end + 1)
  | (.authority, e) => .ok (2, e)
  | (.path, _) => .err 0

inductive UH | userInfo | host
  deriving DecidableEq, Repr

/-- after a `:`: look for an `@` in the rest; returns its offset -/
def findAt : Text → Option Nat
  | [] => none
  | c :: l => if c == cAt then some 0 else (findAt l).map (· + 1)

/-- `user_info_or_host` on the unread suffix; offsets relative to it; `len` = its length -/
def uhGo : Text → UH × Nat
  | [] => (.host, 0)
  | c :: l =>
    if c == cLBr then
      -- IP-literal: up to and including the closing bracket, clipped to the end
      let k := spanLen (fun c => c != cRBr) (c :: l)
      (.host, min (k + 1) (l.length + 1))
    else if c == cAt then (.userInfo, 0)
    else if c == cColon then
      match findAt (c :: l) with
      | some k => (.userInfo, k)
      | none => (.host, 0)
    else let r := uhGo l; (r.1, r.2 + 1)

def user_info_or_host (bytes : Text) (i : Nat) : UH × Nat :=
  let r := uhGo (bytes.drop i)
  (r.1, i + r.2)

def find_user_info (bytes : Text) (i : Nat) : Option Range :=
  (findAt (bytes.drop i)).map fun k => (i, i + k)

def host (bytes : Text) (i : Nat) : Nat :=
  let rest := bytes.drop i
  let i1 :=
    match rest with
    | c :: l => if c == cLBr then i + 1 + spanLen (fun c => c != cRBr) l else i
    | [] => i
  i1 + spanLen (fun c => c != cColon) (bytes.drop i1)

def find_host (bytes : Text) (i : Nat) : Range :=
  match user_info_or_host bytes i with
  | (.userInfo, j) => (j + 1, host bytes (j + 1))
  | (.host, e) => (i, e)

def port (bytes : Text) (i : Nat) : Bool × Nat :=
  match bytes.drop i with
  | c :: _ => if c == cColon then (true, bytes.length) else (false, i)
  | [] => (false, i)

inductive PortState | host | bracket | colon

/-- `find_port`: relative `(start, end)` of the port -/
def findPortGo : PortState → Nat → Nat → Text → Option Range
  | .colon, start, pos, [] => some (start, pos)
  | _, _, _, [] => none
  | .host, start, pos, c :: l =>
    if c == cLBr then findPortGo .bracket start (pos + 1) l
    else if c == cColon then findPortGo .colon (pos + 1) (pos + 1) l
    else findPortGo .host start (pos + 1) l
  | .bracket, start, pos, c :: l =>
    if c == cRBr then findPortGo .host start (pos + 1) l
    else findPortGo .bracket start (pos + 1) l
  | .colon, start, pos, c :: l =>
    if c == cAt then findPortGo .host start (pos + 1) l
    else findPortGo .colon start (pos + 1) l

def find_port (bytes : Text) (i : Nat) : Option Range :=
  findPortGo .host i i (bytes.drop i)

/-! ## path, query, fragment -/

def path (bytes : Text) (i : Nat) : Nat :=
  i + spanLen (fun c => !(c == cQuest || c == cHash)) (bytes.drop i)

def find_path (bytes : Text) (i : Nat) : Range :=
  match scheme_authority_or_path bytes i with
  | (.scheme, scheme_end) =>
    match authority_or_path bytes (scheme_end + 1) with
    | (.authority, authority_end) => (authority_end, path bytes authority_end)
    | (.path, e) => (scheme_end + 1, e)
  | (.authority, authority_end) => (authority_end, path bytes authority_end)
  | (.path, e) => (0, e)

def query (bytes : Text) (i : Nat) : Bool × Nat :=
  match bytes.drop i with
  | c :: l => if c == cQuest then (true, i + 1 + spanLen (fun c => c != cHash) l) else (false, i)
  | [] => (false, i)

/-- relative position of the first `?` before any `#`, or the position where the scan stopped -/
def findQueryGo : Text → Nat ⊕ Nat
  | [] => .inr 0
  | c :: l =>
    if c == cHash then .inr 0
    else if c == cQuest then .inl 0
    else match findQueryGo l with
      | .inl k => .inl (k + 1)
      | .inr k => .inr (k + 1)

def find_query (bytes : Text) (i : Nat) : Found :=
  match findQueryGo (bytes.drop i) with
  | .inl k =>
    let start := i + k + 1
    .ok (start, start + spanLen (fun c => c != cHash) (bytes.drop start))
  | .inr k => .err (i + k)

def fragment (bytes : Text) (i : Nat) : Bool × Nat :=
  match bytes.drop i with
  | c :: _ => if c == cHash then (true, bytes.length) else (false, bytes.length)
  | [] => (false, bytes.length)

def findHashGo : Text → Option Nat
  | [] => none
  | c :: l => if c == cHash then some 0 else (findHashGo l).map (· + 1)

def find_fragment (bytes : Text) (i : Nat) : Found :=
  match findHashGo (bytes.drop i) with
  | some k => .ok (i + k + 1, bytes.length)
  | none => .err (max i bytes.length)

/-! ## all-at-once -/

structure ReferenceParts where
  scheme : Option Range
  authority : Option Range
  path : Range
  query : Option Range
  fragment : Option Range
  deriving DecidableEq, Repr

def reference_parts (bytes : Text) (i : Nat) : ReferenceParts :=
  let (scheme, authority, path) : Option Range × Option Range × Range :=
    match scheme_authority_or_path bytes i with
    | (.scheme, scheme_end) =>
      match authority_or_path bytes (scheme_end + 1) with
      | (.authority, authority_end) =>
        (some (0, scheme_end), some (scheme_end + 3, authority_end),
          (authority_end, Parse.path bytes authority_end))
      | (.path, path_end) => (some (0, scheme_end), none, (scheme_end + 1, path_end))
    | (.authority, authority_end) =>
      (none, some (2, authority_end), (authority_end, Parse.path bytes authority_end))
    | (.path, path_end) => (none, none, (0, path_end))
  let (has_query, query_end) := query bytes path.2
  let q := if has_query then some (path.2 + 1, query_end) else none
  let (has_fragment, fragment_end) := fragment bytes query_end
  let f := if has_fragment then some (query_end + 1, fragment_end) else none
  { scheme := scheme, authority := authority, path := path, query := q, fragment := f }

structure Parts where
  scheme : Range
  authority : Option Range
  path : Range
  query : Option Range
  fragment : Option Range
  deriving DecidableEq, Repr

def parts (bytes : Text) (i : Nat) : Parts :=
  let sch := scheme bytes i
  let (authority, path) : Option Range × Range :=
    match authority_or_path bytes (sch.2 + 1) with
    | (.authority, authority_end) =>
      (some (sch.2 + 3, authority_end), (authority_end, Parse.path bytes authority_end))
    | (.path, path_end) => (none, (sch.2 + 1, path_end))
  let (has_query, query_end) := query bytes path.2
  let q := if has_query then some (path.2 + 1, query_end) else none
  let (has_fragment, fragment_end) := fragment bytes query_end
  let f := if has_fragment then some (query_end + 1, fragment_end) else none
  { scheme := sch, authority := authority, path := path, query := q, fragment := f }

/-- `&bytes[range]` -/
def slice (bytes : Text) (r : Range) : Text := (bytes.take r.2).drop r.1

def sliceO (bytes : Text) (r : Option Range) : Option Text := r.map (slice bytes)

end IrefVerif.Model.Parse
