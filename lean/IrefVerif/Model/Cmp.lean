import IrefVerif.Model.PathMut
import IrefVerif.Model.AuthorityMut
import IrefVerif.Spec.Pct

/-!
# Model of `PartialEq` / `Ord` / `Hash` for every comparable type

Percent-encoded components compare through `pct_str::PctStr`, whose `chars()` runs the
*lenient* decoder of the `utf8-decode` crate over the percent-decoded bytes and `unwrap`s
every item: an undecodable sequence panics at the moment it is *reached* (the loops are
lazy), overlong forms are accepted.  `none` = panic throughout.
The hash is modelled as the sequence of `Hasher::write_*` calls, printed like the harness's
recording hasher prints it.
-/

namespace IrefVerif.Model.Cmp
open IrefVerif.Spec (Text cPct cDot)
open IrefVerif.Model.Parse (slice)

/-! ## `pct_str::Bytes`, `utf8_decode::Decoder`, `pct_str::Chars` -/

/-- `Bytes::next`: `none` = end, `some none` = panic (`unwrap` on a malformed escape) -/
def nextByte : Text → Option (Option (Nat × Text))
  | [] => none
  | c :: rest =>
    if c == cPct then
      match rest with
      | a :: b :: rest' =>
        match IrefVerif.Spec.hexVal a, IrefVerif.Spec.hexVal b with
        | some x, some y => some (some (16 * x + y, rest'))
        | _, _ => some none
      | _ => some none
    else some (some (c, rest))

/-- `utf8_decode::safe::next_byte`: a continuation byte's payload, or an error -/
def contByte (t : Text) : Option (Nat × Text) :=
  match nextByte t with
  | some (some (c, rest)) => if c / 64 == 2 then some (c % 64, rest) else none
  | _ => none

inductive Item
  | ch (c : Nat)
  | err
  deriving DecidableEq, Repr

def validChar (c : Nat) : Bool := c < 0xD800 || (0xE000 ≤ c && c < 0x110000)

/-- one `Chars::next`: `none` = end; `some (item, rest)` -/
def nextChar (t : Text) : Option (Item × Text) :=
  match nextByte t with
  | none => none
  | some none => some (.err, [])
  | some (some (a, r0)) =>
    let fin (cp : Nat) (rest : Text) : Option (Item × Text) :=
      if validChar cp then some (.ch cp, rest) else some (.err, [])
    if a < 0x80 then fin a r0
    else if a / 32 == 6 then
      match contByte r0 with
      | some (b, r1) => fin ((a % 32) * 64 + b) r1
      | none => some (.err, [])
    else if a / 16 == 14 then
      match contByte r0 with
      | some (b, r1) =>
        match contByte r1 with
        | some (c, r2) => fin ((a % 16) * 4096 + b * 64 + c) r2
        | none => some (.err, [])
      | none => some (.err, [])
    else if a / 8 == 30 then
      match contByte r0 with
      | some (b, r1) =>
        match contByte r1 with
        | some (c, r2) =>
          match contByte r2 with
          | some (d, r3) => fin ((a % 8) * 262144 + b * 4096 + c * 64 + d) r3
          | none => some (.err, [])
        | none => some (.err, [])
      | none => some (.err, [])
    else some (.err, [])

/-- the items `chars()` yields, up to and including the first panic -/
def charsFuel : Nat → Text → List Item
  | 0, _ => []
  | fuel + 1, t =>
    match nextChar t with
    | none => []
    | some (.err, _) => [.err]
    | some (.ch c, rest) => .ch c :: charsFuel fuel rest

def chars (t : Text) : List Item := charsFuel (t.length + 1) t

/-- all characters, or `none` if iterating to the end panics -/
def charsAll (t : Text) : Option (List Nat) :=
  (chars t).foldr (fun it acc => match it, acc with
    | .ch c, some l => some (c :: l)
    | _, _ => none) (some [])

/-- `PartialEq for PctStr` (the dependency's own comparison; still what `PctStr == PctStr`
does for callers that go through `as_pct_str()`) -/
def eqLoop : List Item → List Item → Option Bool
  | [], [] => some true
  | .err :: _, _ => none
  | _, .err :: _ => none
  | .ch a :: as, .ch b :: bs => if a != b then some false else eqLoop as bs
  | .ch _ :: _, [] => some false
  | [], .ch _ :: _ => some false

def pctStrEq (a b : Text) : Option Bool := eqLoop (chars a) (chars b)

def ordNat (a b : Nat) : Ordering := if a < b then .lt else if a == b then .eq else .gt

/-- `PctStr::bytes()` collected: the decoded octets (`none`: a malformed escape, which the
validated component types exclude) -/
def pctBytesFuel : Nat → Text → Option Text
  | 0, _ => some []
  | fuel + 1, t =>
    match nextByte t with
    | none => some []
    | some none => none
    | some (some (b, rest)) => (pctBytesFuel fuel rest).map (b :: ·)

def pctBytes (t : Text) : Option Text := pctBytesFuel (t.length + 1) t

def bytesCmp : Text → Text → Ordering
  | [], [] => .eq
  | [], _ :: _ => .lt
  | _ :: _, [] => .gt
  | a :: as, b :: bs => match ordNat a b with
    | .eq => bytesCmp as bs
    | o => o

/-- `PartialEq` of `Segment`, `UserInfo`, `Host`, `Query`, `Fragment`:
`as_pct_str().bytes().eq(other.as_pct_str().bytes())` -/
def pctEq (a b : Text) : Option Bool :=
  match pctBytes a, pctBytes b with
  | some x, some y => some (x == y)
  | _, _ => none

/-- `Ord` of the same types: lexicographic on the decoded octets -/
def pctCmp (a b : Text) : Option Ordering :=
  match pctBytes a, pctBytes b with
  | some x, some y => some (bytesCmp x y)
  | _, _ => none

/-- `Hash` of the same types: one `write_u8` per decoded octet -/
def pctHash (t : Text) : Option String :=
  (pctBytes t).map fun bs => String.join (bs.map fun b => s!"u8:{b},")

/-! ## byte-slice newtypes with derived impls (`Scheme`, `Port`) -/

def hexDigit (n : Nat) : Char := if n < 10 then Char.ofNat (48 + n) else Char.ofNat (87 + n)

def hexStr (t : Text) : String :=
  String.ofList (t.flatMap fun b => [hexDigit (b / 16 % 16), hexDigit (b % 16)])

/-- `Hash for [u8]`: length prefix, then the bytes -/
def bytesHash (t : Text) : String := s!"us:{t.length},b{hexStr t},"

/-! ## combinators for derived impls on `Option<&T>` and on structs -/

def optEq {α} (eq : α → α → Option Bool) : Option α → Option α → Option Bool
  | none, none => some true
  | some a, some b => eq a b
  | _, _ => some false

def optCmp {α} (cmp : α → α → Option Ordering) : Option α → Option α → Option Ordering
  | none, none => some .eq
  | none, some _ => some .lt
  | some _, none => some .gt
  | some a, some b => cmp a b

def optHash {α} (h : α → Option String) : Option α → Option String
  | none => some "is:0,"
  | some a => (h a).map fun s => "is:1," ++ s

/-- short-circuit `&&` of derived `PartialEq` -/
def andThen (a : Option Bool) (b : Unit → Option Bool) : Option Bool :=
  match a with
  | none => none
  | some false => some false
  | some true => b ()

/-- lexicographic chaining of derived `Ord` -/
def thenCmp (a : Option Ordering) (b : Unit → Option Ordering) : Option Ordering :=
  match a with
  | none => none
  | some .eq => b ()
  | some o => some o

def catHash (a : Option String) (b : Unit → Option String) : Option String :=
  match a with
  | none => none
  | some s => (b ()).map fun t => s ++ t

/-! ## authority -/

def authParts (a : Text) : Option Text × Text × Option Text :=
  let r := Authority.parts a
  (r.user_info.map (slice a), slice a r.host, r.port.map (slice a))

def authorityEq (a b : Text) : Option Bool :=
  let (ua, ha, pa) := authParts a
  let (ub, hb, pb) := authParts b
  andThen (optEq pctEq ua ub) fun _ =>
  andThen (pctEq ha hb) fun _ =>
  optEq (fun x y => some (x == y)) pa pb

def authorityCmp (a b : Text) : Option Ordering :=
  let (ua, ha, pa) := authParts a
  let (ub, hb, pb) := authParts b
  thenCmp (optCmp pctCmp ua ub) fun _ =>
  thenCmp (pctCmp ha hb) fun _ =>
  optCmp (fun x y => some (bytesCmp x y)) pa pb

def authorityHash (a : Text) : Option String :=
  let (u, h, p) := authParts a
  catHash (optHash pctHash u) fun _ =>
  catHash (pctHash h) fun _ =>
  optHash (fun x => some (bytesHash x)) p

/-! ## path -/

def allEq : List Text → List Text → Option Bool
  | a :: as, b :: bs => andThen (pctEq a b) fun _ => allEq as bs
  | _, _ => some true

def pathEq (a b : Text) : Option Bool :=
  if Path.is_absolute a == Path.is_absolute b then
    let sa := Path.normalized_segments a
    let sb := Path.normalized_segments b
    if sa.length == sb.length then allEq sa sb else some false
  else some false

def segsCmp : List Text → List Text → Option Ordering
  | [], [] => some .eq
  | _ :: _, [] => some .gt
  | [], _ :: _ => some .lt
  | a :: as, b :: bs => thenCmp (pctCmp a b) fun _ => segsCmp as bs

def pathCmp (a b : Text) : Option Ordering :=
  if Path.is_absolute a == Path.is_absolute b then
    segsCmp (Path.normalized_segments a) (Path.normalized_segments b)
  else if Path.is_absolute a then some .gt else some .lt

def pathHash (a : Text) : Option String :=
  (Path.normalized_segments a).foldl (fun acc s => catHash acc fun _ => pctHash s)
    (some (if Path.is_absolute a then "u8:1," else "u8:0,"))

/-- the loop of `PathImpl::suffix`: outer `none` = panic, inner `none` = no suffix -/
def suffixLoop : List Text → List Text → Text → Option (Option Text)
  | [], [], buf => some (some buf)
  | s :: ss, p :: ps, buf =>
    match pctEq s p with
    | none => none
    | some true => suffixLoop ss ps buf
    | some false => some none
  | [], _ :: _, _ => some none
  | s :: ss, [], buf =>
    match (PathMut.from_path buf).push s with
    | some h => suffixLoop ss [] h.buffer
    | none => none

/-- `PathImpl::suffix` -/
def pathSuffix (a p : Text) : Option (Option Text) :=
  if Path.is_absolute a != Path.is_absolute p then some none
  else suffixLoop (Path.normalized_segments a) (Path.normalized_segments p) []

/-! ## references and full URIs/IRIs: derived impls on `…RefParts` / `…Parts` -/

structure RefParts where
  scheme : Option Text
  authority : Option Text
  path : Text
  query : Option Text
  fragment : Option Text
  deriving DecidableEq, Repr

/-- `UriRef::parts` / `IriRef::parts` -/
def refParts (b : Text) : RefParts :=
  let r := Parse.reference_parts b 0
  { scheme := r.scheme.map (slice b), authority := r.authority.map (slice b),
    path := slice b r.path, query := r.query.map (slice b), fragment := r.fragment.map (slice b) }

/-- `Uri::parts` / `Iri::parts` (the scheme is not optional; kept as `some`) -/
def fullParts (b : Text) : RefParts :=
  let r := Parse.parts b 0
  { scheme := some (slice b r.scheme), authority := r.authority.map (slice b),
    path := slice b r.path, query := r.query.map (slice b), fragment := r.fragment.map (slice b) }

def partsEq (a b : RefParts) : Option Bool :=
  andThen (optEq (fun x y => some (x == y)) a.scheme b.scheme) fun _ =>
  andThen (optEq authorityEq a.authority b.authority) fun _ =>
  andThen (pathEq a.path b.path) fun _ =>
  andThen (optEq pctEq a.query b.query) fun _ =>
  optEq pctEq a.fragment b.fragment

def partsCmp (a b : RefParts) : Option Ordering :=
  thenCmp (optCmp (fun x y => some (bytesCmp x y)) a.scheme b.scheme) fun _ =>
  thenCmp (optCmp authorityCmp a.authority b.authority) fun _ =>
  thenCmp (pathCmp a.path b.path) fun _ =>
  thenCmp (optCmp pctCmp a.query b.query) fun _ =>
  optCmp pctCmp a.fragment b.fragment

def partsHash (a : RefParts) : Option String :=
  catHash (optHash (fun x => some (bytesHash x)) a.scheme) fun _ =>
  catHash (optHash authorityHash a.authority) fun _ =>
  catHash (pathHash a.path) fun _ =>
  catHash (optHash pctHash a.query) fun _ =>
  optHash pctHash a.fragment

def refEq (a b : Text) : Option Bool := partsEq (refParts a) (refParts b)
def refCmp (a b : Text) : Option Ordering := partsCmp (refParts a) (refParts b)
def refHash (a : Text) : Option String := partsHash (refParts a)

/-- `Uri`/`Iri`: `parts()` of the full type, whose scheme field is a plain `&Scheme` -/
def fullEq (a b : Text) : Option Bool := partsEq (fullParts a) (fullParts b)
def fullCmp (a b : Text) : Option Ordering := partsCmp (fullParts a) (fullParts b)
/-- `Hash for Uri`/`Iri` forwards to the reference type (so that `Borrow` is lawful) -/
def fullHash (a : Text) : Option String := refHash a

end IrefVerif.Model.Cmp
