import IrefVerif.Spec.Decompose

/-!
# Model of `crates/core/src/uri/scheme/data.rs`

`DataUrlDelimiters::parse`, the offset-based accessors of the owned form, the re-scanning
accessors of the borrowed form (whose `loop {}`s are modelled with the text length as fuel:
`none` = the loop would never exit), and RFC 4648 base64 decoding as the specification of
`base64::engine::general_purpose::STANDARD` (canonical padding, zero trailing bits).
-/

namespace IrefVerif.Model.DataUrl
open IrefVerif.Spec (Text)

def cComma : Nat := 0x2C
def cSemi : Nat := 0x3B

def isMediaTypeChar (c : Nat) : Bool :=
  (0x30 ≤ c && c ≤ 0x39) || (0x41 ≤ c && c ≤ 0x5A) || (0x61 ≤ c && c ≤ 0x7A) ||
    [0x2F, 0x21, 0x23, 0x24, 0x26, 0x2D, 0x2B, 0x5E, 0x5F, 0x2E].contains c

structure Delimiters where
  media_type_end : Nat
  base_64 : Bool
  data_start : Nat
  deriving DecidableEq, Repr

def dataPrefix : Text := [0x64, 0x61, 0x74, 0x61, 0x3A]          -- "data:"
def base64Comma : Text := [0x62, 0x61, 0x73, 0x65, 0x36, 0x34, 0x2C]  -- "base64,"

/-- the scan over `suffix` (the text after `data:`), `i` = chars consumed so far -/
def parseGo (suffix : Text) : Nat → Text → Option Delimiters
  | _, [] => none
  | i, c :: rest =>
    if c == cComma then
      some { media_type_end := 5 + i, base_64 := false, data_start := 5 + i + 1 }
    else if c == cSemi then
      let j := i + 8
      if suffix.length ≥ j && (suffix.drop (i + 1)).take 7 == base64Comma then
        some { media_type_end := 5 + i, base_64 := true, data_start := 5 + j }
      else none
    else if isMediaTypeChar c then parseGo suffix (i + 1) rest
    else none

/-- `DataUrlDelimiters::parse` (the data URL is ASCII: chars are bytes) -/
def parse (url : Text) : Option Delimiters :=
  if dataPrefix.isPrefixOf url then parseGo (url.drop 5) 0 (url.drop 5) else none

def nonEmpty (t : Text) : Option Text := if t.isEmpty then none else some t

/-- owned form: offsets -/
def ownedMediaType (d : Delimiters) (url : Text) : Option Text :=
  nonEmpty ((url.take d.media_type_end).drop 5)

def ownedData (d : Delimiters) (url : Text) : Text := url.drop d.data_start

/-- borrowed form: first index holding `;` or `,` (fuel = length; `none`: the Rust loop spins) -/
def findFirst (p : Nat → Bool) : Nat → Text → Option Nat
  | _, [] => none
  | i, c :: rest => if p c then some i else findFirst p (i + 1) rest

def borrowedMediaType (url : Text) : Option (Option Text) :=
  (findFirst (fun c => c == cSemi || c == cComma) 0 url).map fun i => nonEmpty ((url.take i).drop 5)

def borrowedIsBase64 (url : Text) : Option Bool :=
  (findFirst (fun c => c == cSemi || c == cComma) 0 url).map fun i => url.getD i 0 == cSemi

def borrowedData (url : Text) : Option Text :=
  (findFirst (fun c => c == cComma) 0 url).map fun i => url.drop (i + 1)

/-! ## RFC 4648 §4 -/

def b64Val (c : Nat) : Option Nat :=
  if 0x41 ≤ c && c ≤ 0x5A then some (c - 0x41)
  else if 0x61 ≤ c && c ≤ 0x7A then some (c - 0x61 + 26)
  else if 0x30 ≤ c && c ≤ 0x39 then some (c - 0x30 + 52)
  else if c == 0x2B then some 62
  else if c == 0x2F then some 63
  else none

def cPad : Nat := 0x3D

/-- decoding with mandatory canonical padding and zero trailing bits -/
def b64Decode : Text → Option Text
  | [] => some []
  | [a, b, c, d] =>
    match b64Val a, b64Val b with
    | some x, some y =>
      if c == cPad && d == cPad then
        if y % 16 == 0 then some [x * 4 + y / 16] else none
      else match b64Val c with
        | some z =>
          if d == cPad then
            if z % 4 == 0 then some [x * 4 + y / 16, (y % 16) * 16 + z / 4] else none
          else match b64Val d with
            | some w => some [x * 4 + y / 16, (y % 16) * 16 + z / 4, (z % 4) * 64 + w]
            | none => none
        | none => none
    | _, _ => none
  | a :: b :: c :: d :: rest =>
    match b64Val a, b64Val b, b64Val c, b64Val d, b64Decode rest with
    | some x, some y, some z, some w, some r =>
      some ((x * 4 + y / 16) :: ((y % 16) * 16 + z / 4) :: ((z % 4) * 64 + w) :: r)
    | _, _, _, _, _ => none
  | _ => none

/-- `decoded_data` -/
def decoded (b64 : Bool) (data : Text) : Option Text := if b64 then b64Decode data else some data

end IrefVerif.Model.DataUrl
