import IrefVerif.Gen.Automata
import IrefVerif.Spec.Pct
import IrefVerif.Spec.Rfc3986
import IrefVerif.Spec.Rfc3987

/-!
# Checked constructors

Every construction route of the 20 validated types funnels into the generated
`validate` (model: `Dfa.run` of the regenerated table).  Byte types run it on the
octets; `char` types first need the input to be well-formed UTF-8 (`&str`/`String`
by typing, `from_vec`/serde-bytes by an explicit `from_utf8`) and run it on the scalar values.
-/

namespace IrefVerif

inductive Kind
  | uri | uriRef | scheme | uriAuthority | uriUserInfo | uriHost | port | uriPath | uriSegment
  | uriQuery | uriFragment
  | iri | iriRef | iriAuthority | iriUserInfo | iriHost | iriPath | iriSegment | iriQuery
  | iriFragment
  deriving DecidableEq, Repr, Inhabited

namespace Kind

def ofString? : String → Option Kind
  | "uri" => some uri | "uriRef" => some uriRef | "scheme" => some scheme
  | "uriAuthority" => some uriAuthority | "uriUserInfo" => some uriUserInfo
  | "uriHost" => some uriHost | "port" => some port | "uriPath" => some uriPath
  | "uriSegment" => some uriSegment | "uriQuery" => some uriQuery
  | "uriFragment" => some uriFragment
  | "iri" => some iri | "iriRef" => some iriRef | "iriAuthority" => some iriAuthority
  | "iriUserInfo" => some iriUserInfo | "iriHost" => some iriHost | "iriPath" => some iriPath
  | "iriSegment" => some iriSegment | "iriQuery" => some iriQuery
  | "iriFragment" => some iriFragment
  | _ => none

/-- the generated automaton of the type -/
def dfa : Kind → Dfa
  | uri => Gen.uri | uriRef => Gen.uriRef | scheme => Gen.scheme
  | uriAuthority => Gen.uriAuthority | uriUserInfo => Gen.uriUserInfo | uriHost => Gen.uriHost
  | port => Gen.port | uriPath => Gen.uriPath | uriSegment => Gen.uriSegment
  | uriQuery => Gen.uriQuery | uriFragment => Gen.uriFragment
  | iri => Gen.iri | iriRef => Gen.iriRef | iriAuthority => Gen.iriAuthority
  | iriUserInfo => Gen.iriUserInfo | iriHost => Gen.iriHost | iriPath => Gen.iriPath
  | iriSegment => Gen.iriSegment | iriQuery => Gen.iriQuery | iriFragment => Gen.iriFragment

/-- the RFC production of the type (the specification) -/
def spec : Kind → RE
  | uri => Rfc3986.URI | uriRef => Rfc3986.URIreference | scheme => Rfc3986.scheme
  | uriAuthority => Rfc3986.authority | uriUserInfo => Rfc3986.userinfo | uriHost => Rfc3986.host
  | port => Rfc3986.port | uriPath => Rfc3986.path | uriSegment => Rfc3986.segment
  | uriQuery => Rfc3986.query | uriFragment => Rfc3986.fragment
  | iri => Rfc3987.IRI | iriRef => Rfc3987.IRIreference | iriAuthority => Rfc3987.iauthority
  | iriUserInfo => Rfc3987.iuserinfo | iriHost => Rfc3987.ihost | iriPath => Rfc3987.ipath
  | iriSegment => Rfc3987.isegment | iriQuery => Rfc3987.iquery | iriFragment => Rfc3987.ifragment

/-- is the underlying Rust type a `str` newtype (IRI family)? -/
def isChar : Kind → Bool
  | iri | iriRef | iriAuthority | iriUserInfo | iriHost | iriPath | iriSegment | iriQuery
  | iriFragment => true
  | _ => false

end Kind

/-- the symbols the automaton reads: the octets, or the decoded scalar values -/
def symbols (k : Kind) (bytes : Spec.Text) : Option (List Nat) :=
  if k.isChar then Spec.utf8Decode? bytes else some bytes

/-- Model of every checked constructor: accept iff `validate` says so. -/
def accepts (k : Kind) (bytes : Spec.Text) : Bool :=
  match symbols k bytes with
  | some w => k.dfa.run w
  | none => false

/-- Specification of the same: the input is (the UTF-8 encoding of) a word of the RFC production. -/
def acceptsSpec (k : Kind) (bytes : Spec.Text) : Bool :=
  match symbols k bytes with
  | some w => RE.matchesB k.spec w
  | none => false

/-- constructor result: the text is kept on success, handed back on failure -/
inductive CtorResult
  | ok (text : Spec.Text)
  | err (payload : Spec.Text)
  deriving DecidableEq, Repr

def construct (k : Kind) (bytes : Spec.Text) : CtorResult :=
  if accepts k bytes then .ok bytes else .err bytes

end IrefVerif
