import IrefVerif.Findings

/-!
# Which theorem of C15 speaks about a given pair

The definitions the round-trip theorems are stated with (`renderRel`, `remainder`, `relSegs`,
`sdCond`; proofs in `Lemmas/RelativeRoundTrip.lean`, `RelativeSameDoc.lean`, `WholeRoundTrip.lean`)
and a decidable classifier `relClass` that evaluates the hypotheses of each theorem of
`Props/C15.lean` on a concrete pair.  The driver prints the class next to the verdict of every
`relto` case, so the evidence says how many generated pairs each theorem covers and how many are
left to the oracle alone.
-/

namespace IrefVerif.Lemmas
open IrefVerif IrefVerif.Spec IrefVerif.Model

/-- the first segment of a path contains `:` (same recursion as `first_segment_contains_colon`) -/
def fsc : Text → Bool
  | [] => false
  | c :: l => if c == cColon then true else if c == cSlash then false else fsc l

/-- the path begins with `//` -/
def startsSS (l : Text) : Bool :=
  match l with
  | a :: b :: _ => a == cSlash && b == cSlash
  | _ => false

/-- the normalised first segment could be misread in this context (empty where `//` would start an
authority or the path would turn absolute; containing `:` at the very start of a relative reference) -/
def needsShield (fa atStart : Bool) (p : Text) : Bool :=
  match nsegs p with
  | first :: _ =>
    (first.isEmpty && (Path.is_relative p || !fa || (nsegs p).length == 1))
      || (Path.is_relative p && atStart && Parse.first_segment_contains_colon first)
  | [] => false

/-- the text of a relative path with the given segments, as `push` writes it at the very start of a
reference: `./` in front of a first segment that is empty or contains `:` -/
def renderRel (L : List Text) : Text :=
  match L with
  | [] => []
  | s :: _ => (if fsc s || s.isEmpty then [cDot, cSlash] else []) ++ joinSlash L

/-- what the directory-prefix loop leaves of the target and of the base's directory, and whether
it dropped anything -/
def remainder (a b : Text) : List Text × List Text × Bool :=
  Ref.dropCommon (nsegs (split a).path) (nsegs (Path.parent_or_empty (split b).path))

/-- the segments of the relative reference: `..` for what is left of `b`'s directory, then what is
left of `a` -/
def relSegs (a b : Text) : List Text :=
  ((remainder a b).2.1.map fun _ => segDotDot) ++ (remainder a b).1

/-- the "same document" shortcut of `relative_to`: the target has a query or a fragment, its
query would not be lost behind the base's, and the relative path written so far is the base's
last segment -/
def sdCond (a b : Text) : Bool :=
  ((split a).query.isSome || (split a).fragment.isSome) &&
    ((split a).query.isSome || (split b).query.isNone) &&
    some (renderRel (relSegs a b)) == Path.last (split b).path

end IrefVerif.Lemmas

namespace IrefVerif.Model
open IrefVerif IrefVerif.Spec IrefVerif.Lemmas

/-- the theorem of `Props/C15.lean` whose hypotheses the pair meets (`oracle-only`: none) -/
def relClass (a b : Text) : String :=
  let A := split a
  let B := split b
  if Findings.f12 a b then "f12"
  else if Ref.relative_to a b == Ref.whole a then
    -- roundtrip_whole_fallback_partial / _noauth_partial
    if A.authority.isSome && nsegs A.path != [[]] then "whole-authority"
    else if A.authority.isNone && isAbs A.path && (nsegs A.path).head? != some [] then "whole-noauth-absolute"
    else if A.authority.isNone && !isAbs A.path && (nsegs A.path).head? != some []
        && (nsegs A.path).getLast? != some segDotDot then "whole-noauth-rootless"
    else "oracle-only-whole"
  else
    let sameScheme := A.scheme == B.scheme
    let sameAuth := A.authority.map authKey == B.authority.map authKey
    let hpb := isAbs B.path || (B.path.isEmpty && B.authority.isSome)
    let hcls := (!(remainder a b).2.2 && (remainder a b).1.head? == some []) == false
    let hhd := B.authority.isSome ||
      ((nsegs A.path).head? != some [] && (nsegs (Path.parent_or_empty B.path)).head? != some [])
    if sameScheme && A.authority.isNone && B.authority.isNone && !isAbs A.path && !isAbs B.path then
      -- roundtrip_on_class_rootless_partial
      if (nsegs A.path).head? != some segDotDot && (nsegs (Path.parent_or_empty B.path)).head? != some segDotDot
          && nsegs A.path != [] && hcls
          && (nsegs A.path).head? != some [] && (nsegs (Path.parent_or_empty B.path)).head? != some []
          && !sdCond a b then "class-rootless" else "oracle-only-rootless"
    else if !(sameScheme && sameAuth && isAbs A.path && hpb) then "oracle-only-relative-paths"
    else if nsegs A.path == [] then
      -- roundtrip_root_partial / _noauth_partial
      if nsegs (Path.parent_or_empty B.path) != [] && !sdCond a b then "root" else "oracle-only-root"
    else if !hcls then "oracle-only"
    else if sdCond a b then "same-document"
    else if hhd then (if B.authority.isSome then "class-authority" else "class-noauth")
    else "oracle-only"

/-- the theorem of `Props/C06.lean` whose hypotheses the pair meets (`oracle-only-…`: none; `f15`:
the open finding) -/
def resolveClass (base r : Text) : String :=
  let B := split base
  let R := split r
  if R.authority.isSome then "with-authority"                       -- resolve_with_authority
  else if R.scheme.isSome then
    if needsShield false false R.path then "oracle-only-scheme-shield" else "with-scheme"
  else if R.path.isEmpty then "empty-path"                          -- resolve_empty_path
  else if isAbs R.path then
    if B.authority.isSome then "absolute-path"                      -- resolve_absolute
    else if needsShield false false R.path then "oracle-only-absolute-shield"
    else "absolute-path-noauth"                                     -- resolve_absolute_no_authority
  else if Findings.f15 base r then "f15"
  else if B.authority.isSome then "merge-authority"                 -- resolve_relative_authority
  else if isAbs B.path then
    if startsSS (resolveSpec base r).path then "oracle-only-ambiguous" else "merge-noauth-absolute"
  else if isAbs (resolveSpec base r).path then "oracle-only-ambiguous" else "merge-relative-base"

end IrefVerif.Model
