import IrefVerif.Findings

/-!
# Which theorem of C15 speaks about a given pair

The definitions the round-trip theorems are stated with (`renderRel`, `remainder`, `relSegs`,
`sdCond`; proofs in `Lemmas/RelativeRoundTrip.lean`, `RelativeSameDoc.lean`, `WholeRoundTrip.lean`)
and a decidable classifier `relClass` that evaluates the hypotheses of each theorem of
`Props/C15.lean` on a concrete pair.  The driver prints the class next to the verdict of every
`relto` case, so the evidence says how many generated pairs each theorem covers and how many are
left to the oracle alone.
-/

namespace IrefVerif.Lemmas
open IrefVerif IrefVerif.Spec IrefVerif.Model

/-- the first segment of a path contains `:` (same recursion as `first_segment_contains_colon`) -/
def fsc : Text → Bool
  | [] => false
  | c :: l => if c == cColon then true else if c == cSlash then false else fsc l

/-- the path begins with `//` -/
def startsSS (l : Text) : Bool :=
  match l with
  | a :: b :: _ => a == cSlash && b == cSlash
  | _ => false

/-- the normalised first segment could be misread in this context (empty where `//` would start an
authority or the path would turn absolute; containing `:` at the very start of a relative reference) -/
def needsShield (fa atStart : Bool) (p : Text) : Bool :=
  match nsegs p with
  | first :: _ =>
    (first.isEmpty && (Path.is_relative p || !fa || (nsegs p).length == 1))
      || (Path.is_relative p && atStart && Parse.first_segment_contains_colon first)
  | [] => false

/-- the text of a relative path with the given segments, as `push` writes it at the very start of a
reference: `./` in front of a first segment that is empty or contains `:` -/
def renderRel (L : List Text) : Text :=
  match L with
  | [] => []
  | s :: _ => (if fsc s || s.isEmpty then [cDot, cSlash] else []) ++ joinSlash L

/-- what the directory-prefix loop leaves of the target and of the base's directory, and whether
it dropped anything -/
def remainder (a b : Text) : List Text × List Text × Bool :=
  Ref.dropCommon (nsegs (split a).path) (nsegs (Path.parent_or_empty (split b).path))

/-- the segments of the relative reference: `..` for what is left of `b`'s directory, then what is
left of `a` -/
def relSegs (a b : Text) : List Text :=
  ((remainder a b).2.1.map fun _ => segDotDot) ++ (remainder a b).1

/-- the "same document" shortcut of `relative_to`: the target has a query or a fragment, its
query would not be lost behind the base's, and the relative path written so far is the base's
last segment -/
def sdCond (a b : Text) : Bool :=
  ((split a).query.isSome || (split a).fragment.isSome) &&
    ((split a).query.isSome || (split b).query.isNone) &&
    some (renderRel (relSegs a b)) == Path.last (split b).path

end IrefVerif.Lemmas

namespace IrefVerif.Model
open IrefVerif IrefVerif.Spec IrefVerif.Lemmas

/-- the cases of `Props/C15.lean` -/
inductive RelCls
  | f12 | wholeAuthority | wholeNoauthAbsolute | wholeNoauthRootless | wholeOther
  | classRootless | rootlessOther | root | rootOther | sameDocument | classAuthority | classNoauth | other
  deriving DecidableEq, Repr

/-- a theorem of `Props/C15.lean` speaks about the case -/
def RelCls.covered : RelCls → Bool
  | .f12 | .wholeOther | .rootlessOther | .rootOther | .other => false
  | _ => true

def RelCls.name : RelCls → String
  | .f12 => "f12"
  | .wholeAuthority => "whole-authority"              -- roundtrip_whole_fallback_partial
  | .wholeNoauthAbsolute => "whole-noauth-absolute"   -- roundtrip_whole_fallback_noauth_partial
  | .wholeNoauthRootless => "whole-noauth-rootless"   -- roundtrip_whole_fallback_rootless_partial
  | .wholeOther => "oracle-only-whole"
  | .classRootless => "class-rootless"                -- roundtrip_on_class_rootless_partial
  | .rootlessOther => "oracle-only-rootless"
  | .root => "root"                                   -- roundtrip_root_partial / _noauth_partial
  | .rootOther => "oracle-only-root"
  | .sameDocument => "same-document"                  -- roundtrip_same_document_partial
  | .classAuthority => "class-authority"              -- roundtrip_on_class_partial
  | .classNoauth => "class-noauth"                    -- roundtrip_on_class_noauth_partial
  | .other => "oracle-only"

/-- the remainder begins with an empty segment and no common directory precedes it -/
def skipEmpty (a b : Text) : Bool := !(remainder a b).2.2 && (remainder a b).1.head? == some []

/-- the theorem of `Props/C15.lean` whose hypotheses the pair meets; `C15.roundtrip_classified`
proves the round trip on every covered case -/
def relCls (a b : Text) : RelCls :=
  if Findings.f12 a b then .f12
  else if Ref.relative_to a b == Ref.whole a then
    if (split a).authority.isSome then (if nsegs (split a).path == [[]] then .wholeOther else .wholeAuthority)
    else if (nsegs (split a).path).head? == some [] then .wholeOther
    else if isAbs (split a).path then .wholeNoauthAbsolute
    else if (nsegs (split a).path).getLast? == some segDotDot then .wholeOther else .wholeNoauthRootless
  else if (split a).scheme != (split b).scheme then .other
  else if (split a).authority.isNone && (split b).authority.isNone && !isAbs (split a).path && !isAbs (split b).path then
    if (nsegs (split a).path).head? == some [cDot, cDot]
        || (nsegs (Path.parent_or_empty (split b).path)).head? == some [cDot, cDot] then .rootlessOther
    else if nsegs (split a).path == [] then
      (if nsegs (Path.parent_or_empty (split b).path) == [] || sdCond a b then .rootlessOther else .root)
    else if skipEmpty a b then .rootlessOther
    else if sdCond a b then .sameDocument
    else if (nsegs (split a).path).head? == some []
        || (nsegs (Path.parent_or_empty (split b).path)).head? == some [] then .rootlessOther else .classRootless
  else if (split a).authority.map authKey != (split b).authority.map authKey || !isAbs (split a).path
      || !(isAbs (split b).path || ((split b).path.isEmpty && (split b).authority.isSome)) then .other
  else if nsegs (split a).path == [] then
    if nsegs (Path.parent_or_empty (split b).path) == [] || sdCond a b then .rootOther else .root
  else if skipEmpty a b then .other
  else if sdCond a b then .sameDocument
  else if (split b).authority.isSome then .classAuthority
  else if (nsegs (split a).path).head? == some []
      || (nsegs (Path.parent_or_empty (split b).path)).head? == some [] then .other else .classNoauth

def relClass (a b : Text) : String := (relCls a b).name

/-- the cases of `Props/C06.lean` -/
inductive ResCls
  | withAuthority | withScheme | schemeShield | emptyPath | absolutePath | absoluteShield
  | absolutePathNoauth | f15 | mergeAuthority | ambiguous | mergeNoauthAbsolute | mergeRelativeBase
  deriving DecidableEq, Repr

/-- a theorem of `Props/C06.lean` speaks about the case -/
def ResCls.covered : ResCls → Bool
  | .schemeShield | .absoluteShield | .f15 | .ambiguous => false
  | _ => true

def ResCls.name : ResCls → String
  | .withAuthority => "with-authority"            -- resolve_with_authority
  | .withScheme => "with-scheme"                  -- resolve_scheme_no_authority
  | .schemeShield => "oracle-only-scheme-shield"
  | .emptyPath => "empty-path"                    -- resolve_empty_path
  | .absolutePath => "absolute-path"              -- resolve_absolute
  | .absoluteShield => "oracle-only-absolute-shield"
  | .absolutePathNoauth => "absolute-path-noauth" -- resolve_absolute_no_authority
  | .f15 => "f15"
  | .mergeAuthority => "merge-authority"          -- resolve_relative_authority
  | .ambiguous => "oracle-only-ambiguous"
  | .mergeNoauthAbsolute => "merge-noauth-absolute"   -- resolve_relative_noauthority
  | .mergeRelativeBase => "merge-relative-base"       -- resolve_relative_relbase

/-- the theorem of `Props/C06.lean` whose hypotheses the pair meets; `C06.resolve_classified`
proves that on every covered case the model of `resolve` is the RFC transformation -/
def resolveCls (base r : Text) : ResCls :=
  let B := split base
  let R := split r
  if R.authority.isSome then .withAuthority
  else if R.scheme.isSome then
    if needsShield false false R.path then .schemeShield else .withScheme
  else if R.path.isEmpty then .emptyPath
  else if isAbs R.path then
    if B.authority.isSome then .absolutePath
    else if needsShield false false R.path then .absoluteShield
    else .absolutePathNoauth
  else if Findings.f15 base r then .f15
  else if B.authority.isSome then .mergeAuthority
  else if isAbs B.path then
    if startsSS (resolveSpec base r).path then .ambiguous else .mergeNoauthAbsolute
  else if isAbs (resolveSpec base r).path then .ambiguous else .mergeRelativeBase

def resolveClass (base r : Text) : String := (resolveCls base r).name

end IrefVerif.Model
