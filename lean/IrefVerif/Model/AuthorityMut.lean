import IrefVerif.Model.Path

/-!
# Model of `crates/core/src/common/authority.rs` and `authority_mut.rs`

`AuthorityMutImpl { data, start, end }` as a record owning the buffer; `none` = panic
(the `usize` subtractions are modelled with explicit guards).
-/

namespace IrefVerif.Model
open IrefVerif.Spec (Text cColon cAt)
open IrefVerif.Model.Parse (Range slice)

namespace Authority

structure PartsR where
  user_info : Option Range
  host : Range
  port : Option Range
  deriving DecidableEq, Repr

/-- `AuthorityImpl::parts` -/
def parts (bytes : Text) : PartsR :=
  let (user_info, host) : Option Range × Range :=
    match Parse.user_info_or_host bytes 0 with
    | (.userInfo, user_info_end) =>
      let host_start := user_info_end + 1
      (some (0, user_info_end), (host_start, Parse.host bytes host_start))
    | (.host, host_end) => (none, (0, host_end))
  let (has_port, port_end) := Parse.port bytes host.2
  { user_info, host, port := if has_port then some (host.2 + 1, port_end) else none }

def user_info (bytes : Text) : Option Text := (Parse.find_user_info bytes 0).map (slice bytes)
def host (bytes : Text) : Text := slice bytes (Parse.find_host bytes 0)
def port (bytes : Text) : Option Text := (Parse.find_port bytes 0).map (slice bytes)

end Authority

structure AuthorityMut where
  data : Text
  start : Nat
  «end» : Nat
  deriving DecidableEq, Repr

namespace AuthorityMut

def as_authority (h : AuthorityMut) : Text := slice h.data (h.start, h.«end»)

/-- checked `a - b` (`usize` underflow panics) -/
def sub? (a b : Nat) : Option Nat := if b ≤ a then some (a - b) else none

def set_userinfo (h : AuthorityMut) (userinfo : Option Text) : Option AuthorityMut :=
  let bytes := h.data.take h.«end»
  match userinfo with
  | some new_userinfo =>
    match Parse.find_user_info bytes h.start with
    | some r => do
      let data ← splice h.data r new_userinfo
      let e ← sub? h.«end» (r.2 - r.1)
      pure { h with data, «end» := e + new_userinfo.length }
    | none => do
      let data ← splice h.data (h.start, h.start) (new_userinfo ++ [cAt])
      pure { h with data, «end» := h.«end» + new_userinfo.length + 1 }
  | none =>
    match Parse.find_user_info bytes h.start with
    | some r => do
      let data ← splice h.data (r.1, r.2 + 1) []
      let e ← sub? h.«end» (r.2 - r.1 + 1)
      pure { h with data, «end» := e }
    | none => some h

def set_host (h : AuthorityMut) (host : Text) : Option AuthorityMut := do
  let bytes := h.data.take h.«end»
  let r := Parse.find_host bytes h.start
  let host_len ← sub? r.2 r.1
  let e ← sub? h.«end» host_len
  let data ← splice h.data r host
  pure { h with data, «end» := e + host.length }

def set_port (h : AuthorityMut) (port : Option Text) : Option AuthorityMut :=
  let bytes := h.data.take h.«end»
  match port with
  | some new_port =>
    match Parse.find_port bytes h.start with
    | some r => do
      let data ← splice h.data r new_port
      let e ← sub? h.«end» (r.2 - r.1)
      pure { h with data, «end» := e + new_port.length }
    | none => do
      let data ← splice h.data (h.«end», h.«end») (cColon :: new_port)
      pure { h with data, «end» := h.«end» + new_port.length + 1 }
  | none =>
    match Parse.find_port bytes h.start with
    | some r => do
      let s ← sub? r.1 1
      let data ← splice h.data (s, r.2) []
      let e ← sub? h.«end» (r.2 - r.1 + 1)
      pure { h with data, «end» := e }
    | none => some h

end AuthorityMut
end IrefVerif.Model
