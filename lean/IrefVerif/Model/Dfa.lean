import IrefVerif.Spec.Regex

/-!
# The automata behind `validate`, and a verified equivalence check against a regex

`Dfa` mirrors the shape of the code that `#[derive(RegularGrammar)]` generates
(`crates/core/src/**`, visible in `-Zunpretty=expanded`):

```rust
pub fn validate(mut input: impl Iterator<Item = u8>) -> bool {
    let mut state = INIT;
    loop { state = match state {
        Q => match input.next() {
            Some(a..=b | c) => Q1, …,
            Some(_) => break false,
            None => break FINAL_Q,
        }, … } } }
```

`verify d r parts cert` is a Boolean, kernel-evaluable certificate check; the
theorem `verify_sound` turns `verify … = true` into
`∀ w over the covered alphabet, d.run w = true ↔ Matches r w`.
-/

namespace IrefVerif
open RE

structure Dfa where
  init : Nat
  /-- per state: is it accepting (`None => break true`), and its `Some(ranges) => target` arms in order -/
  states : Array (Bool × List (Ranges × Nat))

namespace Dfa

def findArm : List (Ranges × Nat) → Nat → Option Nat
  | [], _ => none
  | t :: ts, c => if inCls t.1 c then some t.2 else findArm ts c

def step (d : Dfa) (q : Nat) (c : Nat) : Option Nat :=
  match d.states[q]? with
  | none => none
  | some s => findArm s.2 c

def final (d : Dfa) (q : Nat) : Bool :=
  match d.states[q]? with
  | none => false
  | some s => s.1

/-- `none` is the rejecting sink (`Some(_) => break false`). -/
def stepO (d : Dfa) : Option Nat → Nat → Option Nat
  | none, _ => none
  | some q, c => d.step q c

def acceptO (d : Dfa) : Option Nat → Bool
  | none => false
  | some q => d.final q

def runFrom (d : Dfa) : Option Nat → List Nat → Bool
  | q, [] => d.acceptO q
  | q, c :: w => runFrom d (d.stepO q c) w

/-- The model of the generated `validate`. -/
def run (d : Dfa) (w : List Nat) : Bool := d.runFrom (some d.init) w

theorem runFrom_none (d : Dfa) (w : List Nat) : d.runFrom none w = false := by
  induction w with
  | nil => rfl
  | cons c w ih => simpa [runFrom, stepO] using ih

end Dfa

/-! ## Interval-uniformity: every symbol of `[lo, hi]` behaves like `lo` -/

/-- `some true`: `[lo,hi]` lies inside one range; `some false`: disjoint from all; `none`: straddles. -/
def clsI : Ranges → Nat → Nat → Option Bool
  | [], _, _ => some false
  | p :: rs, lo, hi =>
    if Nat.ble p.1 lo && Nat.ble hi p.2 then some true
    else if Nat.blt hi p.1 || Nat.blt p.2 lo then clsI rs lo hi
    else none

theorem clsI_sound {rs : Ranges} {lo hi c : Nat} {v : Bool}
    (h : clsI rs lo hi = some v) (h1 : lo ≤ c) (h2 : c ≤ hi) : inCls rs c = v := by
  induction rs with
  | nil => simp [clsI] at h; simp [inCls, h]
  | cons p rs ih =>
    simp only [clsI] at h
    split at h
    · rename_i hin
      simp only [Bool.and_eq_true, Nat.ble_eq] at hin
      simp at h; subst h
      simp only [inCls, Bool.or_eq_true, Bool.and_eq_true, Nat.ble_eq]
      left; omega
    · split at h
      · rename_i hout
        simp only [Bool.or_eq_true, Nat.blt_eq] at hout
        have : (Nat.ble p.1 c && Nat.ble c p.2) = false := by
          cases h3 : (Nat.ble p.1 c && Nat.ble c p.2) with
          | false => rfl
          | true =>
            simp only [Bool.and_eq_true, Nat.ble_eq] at h3
            omega
        simp [inCls, this, ih h]
      · cases h

def uniformRE (lo hi : Nat) : RE → Bool
  | .cls rs => (clsI rs lo hi).isSome
  | .seq a b => uniformRE lo hi a && uniformRE lo hi b
  | .alt a b => uniformRE lo hi a && uniformRE lo hi b
  | .star a => uniformRE lo hi a
  | _ => true

theorem inCls_uniform {rs : Ranges} {lo hi c : Nat}
    (h : (clsI rs lo hi).isSome = true) (h1 : lo ≤ c) (h2 : c ≤ hi) : inCls rs c = inCls rs lo := by
  obtain ⟨v, hv⟩ := Option.isSome_iff_exists.mp h
  rw [clsI_sound hv h1 h2, clsI_sound hv (Nat.le_refl _) (Nat.le_trans h1 h2)]

theorem deriv_uniform {r : RE} {lo hi c : Nat}
    (h : uniformRE lo hi r = true) (h1 : lo ≤ c) (h2 : c ≤ hi) : deriv c r = deriv lo r := by
  induction r with
  | empty => rfl
  | eps => rfl
  | cls rs => simp only [uniformRE] at h; simp [deriv, inCls_uniform h h1 h2]
  | seq a b iha ihb =>
    simp only [uniformRE, Bool.and_eq_true] at h
    simp [deriv, iha h.1, ihb h.2]
  | alt a b iha ihb =>
    simp only [uniformRE, Bool.and_eq_true] at h
    simp [deriv, iha h.1, ihb h.2]
  | star a ih =>
    simp only [uniformRE] at h
    simp [deriv, ih h]

def uniformArms (lo hi : Nat) : List (Ranges × Nat) → Bool
  | [] => true
  | t :: ts => (clsI t.1 lo hi).isSome && uniformArms lo hi ts

theorem findArm_uniform {ts : List (Ranges × Nat)} {lo hi c : Nat}
    (h : uniformArms lo hi ts = true) (h1 : lo ≤ c) (h2 : c ≤ hi) :
    Dfa.findArm ts c = Dfa.findArm ts lo := by
  induction ts with
  | nil => rfl
  | cons t ts ih =>
    simp only [uniformArms, Bool.and_eq_true] at h
    simp [Dfa.findArm, inCls_uniform h.1 h1 h2, ih h.2]

def uniformState (d : Dfa) (lo hi : Nat) : Option Nat → Bool
  | none => true
  | some q =>
    match d.states[q]? with
    | none => true
    | some s => uniformArms lo hi s.2

theorem stepO_uniform {d : Dfa} {q : Option Nat} {lo hi c : Nat}
    (h : uniformState d lo hi q = true) (h1 : lo ≤ c) (h2 : c ≤ hi) :
    d.stepO q c = d.stepO q lo := by
  cases q with
  | none => rfl
  | some q =>
    simp only [uniformState] at h
    simp only [Dfa.stepO, Dfa.step]
    split
    · rfl
    · rename_i s hs
      rw [hs] at h
      exact findArm_uniform h h1 h2

/-! ## The certificate check -/

def beqON : Option Nat → Option Nat → Bool
  | none, none => true
  | some a, some b => Nat.beq a b
  | _, _ => false

theorem beqON_iff {a b : Option Nat} : beqON a b = true ↔ a = b := by
  cases a <;> cases b <;> simp [beqON]

def memR : List (Option Nat × RE) → Option Nat → RE → Bool
  | [], _, _ => false
  | p :: R, q, r => (beqON p.1 q && RE.beq p.2 r) || memR R q r

theorem memR_iff {R : List (Option Nat × RE)} {q r} : memR R q r = true ↔ (q, r) ∈ R := by
  induction R with
  | nil => simp [memR]
  | cons p R ih =>
    obtain ⟨p1, p2⟩ := p
    simp only [memR, Bool.or_eq_true, Bool.and_eq_true, beqON_iff, RE.beq_iff, ih,
      List.mem_cons, Prod.mk.injEq]
    constructor
    · rintro (⟨rfl, rfl⟩ | h)
      · exact .inl ⟨rfl, rfl⟩
      · exact .inr h
    · rintro (⟨rfl, rfl⟩ | h)
      · exact .inl ⟨rfl, rfl⟩
      · exact .inr h

def isEmptyRE : RE → Bool
  | .empty => true
  | _ => false

/-- One pair, one interval: both sides are uniform on the interval and the successor pair is
either the dead pair `(sink, ∅)` or again in `R`. -/
def checkInterval (d : Dfa) (R : List (Option Nat × RE)) (q : Option Nat) (r : RE)
    (iv : Nat × Nat) : Bool :=
  Nat.ble iv.1 iv.2 && uniformRE iv.1 iv.2 r && uniformState d iv.1 iv.2 q &&
    (let q' := d.stepO q iv.1
     let r' := deriv iv.1 r
     (beqON q' none && isEmptyRE r') || memR R q' r')

def checkPair (d : Dfa) (R : List (Option Nat × RE)) (parts : List (Nat × Nat))
    (p : Option Nat × RE) : Bool :=
  (d.acceptO p.1 == p.2.nullable) && parts.all (checkInterval d R p.1 p.2)

/-- The relation is rebuilt from one access word per pair. -/
def mkR (r0 : RE) (cert : List (Option Nat × List Nat)) : List (Option Nat × RE) :=
  cert.map fun p => (p.1, derivs r0 p.2)

def verify (d : Dfa) (r0 : RE) (parts : List (Nat × Nat))
    (cert : List (Option Nat × List Nat)) : Bool :=
  let R := mkR r0 cert
  memR R (some d.init) r0 && R.all (checkPair d R parts)

/-- `c` lies in one of the intervals of the partition. -/
def Covered (parts : List (Nat × Nat)) (c : Nat) : Prop := ∃ iv ∈ parts, iv.1 ≤ c ∧ c ≤ iv.2

theorem verify_sound_aux {d : Dfa} {R : List (Option Nat × RE)} {parts : List (Nat × Nat)}
    (hR : R.all (checkPair d R parts) = true) :
    ∀ (w : List Nat) (q : Option Nat) (r : RE), (q, r) ∈ R → (∀ c ∈ w, Covered parts c) →
      (d.runFrom q w = true ↔ Matches r w) := by
  intro w
  induction w with
  | nil =>
    intro q r hmem _
    have hp := List.all_eq_true.mp hR _ hmem
    simp only [checkPair, Bool.and_eq_true, beq_iff_eq] at hp
    simp only [Dfa.runFrom, hp.1]
    exact matches_nil_iff.symm
  | cons c w ih =>
    intro q r hmem hcov
    have hp := List.all_eq_true.mp hR _ hmem
    simp only [checkPair, Bool.and_eq_true] at hp
    obtain ⟨iv, hiv, hlo, hhi⟩ := hcov c (List.mem_cons_self)
    have hi := List.all_eq_true.mp hp.2 iv hiv
    simp only [checkInterval, Bool.and_eq_true, Bool.or_eq_true] at hi
    obtain ⟨⟨⟨_, hur⟩, huq⟩, hsucc⟩ := hi
    have hq : d.stepO q c = d.stepO q iv.1 := stepO_uniform huq hlo hhi
    have hr : deriv c r = deriv iv.1 r := deriv_uniform hur hlo hhi
    have hcov' : ∀ c ∈ w, Covered parts c := fun x hx => hcov x (List.mem_cons_of_mem _ hx)
    rw [matches_cons_iff, Dfa.runFrom, hq, hr]
    rcases hsucc with ⟨hq', hr'⟩ | hmem'
    · have hq'' := beqON_iff.mp hq'
      rw [hq'', Dfa.runFrom_none]
      have : deriv iv.1 r = RE.empty := by
        revert hr'; cases deriv iv.1 r <;> simp [isEmptyRE]
      rw [this]
      simp [matches_empty]
    · exact ih _ _ (memR_iff.mp hmem') hcov'

theorem verify_sound {d : Dfa} {r0 : RE} {parts : List (Nat × Nat)}
    {cert : List (Option Nat × List Nat)} (h : verify d r0 parts cert = true)
    (w : List Nat) (hw : ∀ c ∈ w, Covered parts c) :
    d.run w = true ↔ Matches r0 w := by
  simp only [verify, Bool.and_eq_true] at h
  exact verify_sound_aux h.2 w _ _ (memR_iff.mp h.1) hw

theorem nbeq_iff {a b : Nat} : Nat.beq a b = true ↔ a = b :=
  ⟨Nat.eq_of_beq_eq_true, fun h => h ▸ Nat.beq_refl a⟩

/-! ## Alphabets: the partition covers all bytes / all Unicode scalar values -/

/-- `parts` is a contiguous chain of intervals starting at `lo`; returns the last upper bound. -/
def chainEnd : Nat → List (Nat × Nat) → Option Nat
  | _, [] => none
  | lo, [iv] => if Nat.beq iv.1 lo && Nat.ble iv.1 iv.2 then some iv.2 else none
  | lo, iv :: rest => if Nat.beq iv.1 lo && Nat.ble iv.1 iv.2 then chainEnd (iv.2 + 1) rest else none

theorem chainEnd_covers {parts : List (Nat × Nat)} {lo hi : Nat}
    (h : chainEnd lo parts = some hi) (c : Nat) (h1 : lo ≤ c) (h2 : c ≤ hi) :
    ∃ iv ∈ parts, iv.1 ≤ c ∧ c ≤ iv.2 := by
  induction parts generalizing lo with
  | nil => simp [chainEnd] at h
  | cons iv rest ih =>
    cases rest with
    | nil =>
      simp only [chainEnd] at h
      split at h
      · rename_i hc
        simp only [Bool.and_eq_true, nbeq_iff, Nat.ble_eq] at hc
        simp at h
        exact ⟨iv, List.mem_cons_self, by omega, by omega⟩
      · cases h
    | cons iv2 rest2 =>
      simp only [chainEnd] at h
      split at h
      · rename_i hc
        simp only [Bool.and_eq_true, nbeq_iff, Nat.ble_eq] at hc
        by_cases hle : c ≤ iv.2
        · exact ⟨iv, List.mem_cons_self, by omega, hle⟩
        · obtain ⟨iv', hm, hh⟩ := ih h (by omega)
          exact ⟨iv', List.mem_cons_of_mem _ hm, hh⟩
      · cases h

/-- bytes: `0 … 255` -/
def coversBytes (parts : List (Nat × Nat)) : Bool :=
  match chainEnd 0 parts with
  | some hi => Nat.beq hi 255
  | none => false

/-- Unicode scalar values: `0 … 0xD7FF` and `0xE000 … 0x10FFFF`, given as two chains. -/
def coversScalars (parts1 parts2 : List (Nat × Nat)) : Bool :=
  (match chainEnd 0 parts1 with
   | some hi => Nat.beq hi 0xD7FF
   | none => false) &&
  (match chainEnd 0xE000 parts2 with
   | some hi => Nat.beq hi 0x10FFFF
   | none => false)

def IsByte (c : Nat) : Prop := c < 256
def IsScalar (c : Nat) : Prop := c < 0xD800 ∨ (0xE000 ≤ c ∧ c < 0x110000)

theorem coversBytes_sound {parts} (h : coversBytes parts = true) (c : Nat) (hc : IsByte c) :
    Covered parts c := by
  simp only [coversBytes] at h
  split at h
  · rename_i hi he
    have h := nbeq_iff.mp h; subst h
    exact chainEnd_covers he c (Nat.zero_le _) (by unfold IsByte at hc; omega)
  · cases h

theorem coversScalars_sound {p1 p2} (h : coversScalars p1 p2 = true) (c : Nat) (hc : IsScalar c) :
    Covered (p1 ++ p2) c := by
  simp only [coversScalars, Bool.and_eq_true] at h
  obtain ⟨h1, h2⟩ := h
  split at h1
  · rename_i hi1 he1
    split at h2
    · rename_i hi2 he2
      have h1 := nbeq_iff.mp h1; have h2 := nbeq_iff.mp h2; subst h1; subst h2
      rcases hc with hc | ⟨hc1, hc2⟩
      · obtain ⟨iv, hm, hh⟩ := chainEnd_covers he1 c (Nat.zero_le _) (by omega)
        exact ⟨iv, List.mem_append_left _ hm, hh⟩
      · obtain ⟨iv, hm, hh⟩ := chainEnd_covers he2 c hc1 (by omega)
        exact ⟨iv, List.mem_append_right _ hm, hh⟩
    · cases h2
  · cases h1

/-- Byte-alphabet packaging used by the URI-family theorems. -/
def verifyBytes (d : Dfa) (r0 : RE) (parts : List (Nat × Nat))
    (cert : List (Option Nat × List Nat)) : Bool :=
  coversBytes parts && verify d r0 parts cert

/-- Scalar-value packaging used by the IRI-family theorems. -/
def verifyScalars (d : Dfa) (r0 : RE) (p1 p2 : List (Nat × Nat))
    (cert : List (Option Nat × List Nat)) : Bool :=
  coversScalars p1 p2 && verify d r0 (p1 ++ p2) cert

theorem verifyBytes_sound {d r0 parts cert} (h : verifyBytes d r0 parts cert = true)
    (w : List Nat) (hw : ∀ c ∈ w, IsByte c) : d.run w = true ↔ Matches r0 w := by
  simp only [verifyBytes, Bool.and_eq_true] at h
  exact verify_sound h.2 w (fun c hc => coversBytes_sound h.1 c (hw c hc))

theorem verifyScalars_sound {d r0 p1 p2 cert} (h : verifyScalars d r0 p1 p2 cert = true)
    (w : List Nat) (hw : ∀ c ∈ w, IsScalar c) : d.run w = true ↔ Matches r0 w := by
  simp only [verifyScalars, Bool.and_eq_true] at h
  exact verify_sound h.2 w (fun c hc => coversScalars_sound h.1 c (hw c hc))

end IrefVerif
