import IrefVerif.Model.Parse
import IrefVerif.Spec.Path

/-!
# Model of `crates/core/src/common/path.rs` (read-only part) and `utils.rs`

`PathImpl`'s methods on the path text; the double-ended segment iterator with its two
offsets; the normalising stack of `NormalizedSegmentsImpl::new`.
-/

namespace IrefVerif.Model
open IrefVerif.Spec (Text cSlash cQuest cHash cDot)
open IrefVerif.Model.Parse (Range slice spanLen)

/-! ## `utils::replace` / `allocate_range` followed by the caller's writes

`none` models a panic (`range.end - range.start` or `buffer.len() - range.end` underflowing,
which is an arithmetic-overflow panic in the harness build and a slice-index panic otherwise). -/

def splice (buffer : Text) (r : Range) (content : Text) : Option Text :=
  if r.1 ≤ r.2 ∧ r.2 ≤ buffer.length then
    some (buffer.take r.1 ++ content ++ buffer.drop r.2)
  else none

namespace Path

def is_empty (p : Text) : Bool := p.isEmpty || p == [cSlash]

def is_absolute (p : Text) : Bool :=
  match p with
  | c :: _ => c == cSlash
  | [] => false

def is_relative (p : Text) : Bool := !is_absolute p

def first_segment_offset (p : Text) : Nat := if is_absolute p then 1 else 0

/-- `segment_at`: the segment starting at `offset` and the offset of the next one -/
def segment_at (p : Text) (offset : Nat) : Range × Nat :=
  let i := offset + spanLen (fun c => !(c == cSlash || c == cQuest || c == cHash)) (p.drop offset)
  ((offset, i), i + 1)

def next_segment_from (p : Text) (offset : Nat) : Option (Range × Nat) :=
  if offset ≤ p.length then some (segment_at p offset) else none

/-- the backward scan of `previous_segment_from`: `while i > first && bytes[i] != '/' { i -= 1 }` -/
def scanBack (p : Text) (first : Nat) : Nat → Nat
  | 0 => 0
  | i + 1 => if i + 1 > first && p.getD (i + 1) 0 != cSlash then scanBack p first i else i + 1

def previous_segment_from (p : Text) (offset : Nat) : Option (Range × Nat) :=
  if offset ≥ 2 then
    let first := first_segment_offset p
    let i := scanBack p first (offset - 2)
    if p.getD i 0 == cSlash then
      let j := i + 1
      some ((segment_at p j).1, j)
    else
      some ((segment_at p first).1, first)
  else none

def first (p : Text) : Option Text :=
  if is_empty p then none else some (slice p (segment_at p (first_segment_offset p)).1)

def last (p : Text) : Option Text :=
  if is_empty p then none
  else (previous_segment_from p (p.length + 1)).map fun r => slice p r.1

/-- the state of `SegmentsImpl` -/
inductive Segments
  | empty
  | nonEmpty (offset back_offset : Nat)
  deriving DecidableEq, Repr

def segments (p : Text) : Segments :=
  if is_empty p then .empty else .nonEmpty (first_segment_offset p) (p.length + 1)

def Segments.next (p : Text) : Segments → Option Text × Segments
  | .empty => (none, .empty)
  | .nonEmpty offset back =>
    if offset < back then
      match next_segment_from p offset with
      | some (r, i) => (some (slice p r), .nonEmpty i back)
      | none => (none, .nonEmpty offset back)
    else (none, .nonEmpty offset back)

def Segments.next_back (p : Text) : Segments → Option Text × Segments
  | .empty => (none, .empty)
  | .nonEmpty offset back =>
    if offset < back then
      match previous_segment_from p back with
      | some (r, i) => (some (slice p r), .nonEmpty offset i)
      | none => (none, .nonEmpty offset back)
    else (none, .nonEmpty offset back)

/-- drain the iterator from the front (fuel = text length + 2 bounds the number of segments) -/
def Segments.collect (p : Text) : Nat → Segments → List Text
  | 0, _ => []
  | fuel + 1, s =>
    match Segments.next p s with
    | (some x, s') => x :: Segments.collect p fuel s'
    | (none, _) => []

/-- `path.segments()` collected -/
def segmentList (p : Text) : List Text := Segments.collect p (p.length + 2) (segments p)

def Segments.collectBack (p : Text) : Nat → Segments → List Text
  | 0, _ => []
  | fuel + 1, s =>
    match Segments.next_back p s with
    | (some x, s') => x :: Segments.collectBack p fuel s'
    | (none, _) => []

def segmentListRev (p : Text) : List Text := Segments.collectBack p (p.length + 2) (segments p)

/-- `NormalizedSegmentsImpl::new`: the stack after the walk (bottom first) -/
def normalizedStep (relative : Bool) (stack : List Text) (segment : Text) : List Text :=
  if segment == [cDot] then stack
  else if segment == [cDot, cDot] then
    if (match stack.getLast? with
        | some s => s == [cDot, cDot]
        | none => relative)
    then stack ++ [segment] else stack.dropLast
  else stack ++ [segment]

def normalized_segments (p : Text) : List Text :=
  (segmentList p).foldl (normalizedStep (is_relative p)) []

def file_name (p : Text) : Option Text :=
  match (Segments.next_back p (segments p)).1 with
  | some s => if s.isEmpty then none else some s
  | none => none

/-- the scan of `directory` / `parent`: last index `≤ i` holding a `/`, or 0 -/
def lastSlashFrom (p : Text) : Nat → Nat
  | 0 => 0
  | i + 1 => if p.getD (i + 1) 0 != cSlash then lastSlashFrom p i else i + 1

def directory (p : Text) : Text :=
  if p.isEmpty then p
  else
    let i := lastSlashFrom p (p.length - 1)
    if i == 0 && p.getD 0 0 != cSlash then [] else p.take (i + 1)

def parent (p : Text) : Option Text :=
  if is_empty p then none
  else
    let e := lastSlashFrom p (p.length - 1)
    if p.getD e 0 == cSlash then
      if e == 0 then some [cSlash]
      else if e == 1 && p.getD 0 0 == cSlash && p.getD 1 0 == cSlash then some [cSlash, cDot, cSlash]
      else some (p.take e)
    else none

def parent_or_empty (p : Text) : Text :=
  match parent p with
  | some r => r
  | none => if is_absolute p then [cSlash] else []

end Path
end IrefVerif.Model
