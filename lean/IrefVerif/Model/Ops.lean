import IrefVerif.Model.Reference
import IrefVerif.Model.Ctor
import IrefVerif.Oracle

/-!
# The model's answer to every harness operation, in the harness's own output format
-/

namespace IrefVerif.Model
open IrefVerif IrefVerif.Spec
open IrefVerif.Oracle (Fam PmOp AmOp)
open IrefVerif.Model.Parse (slice sliceO)

def hexChar (n : Nat) : Char := if n < 10 then Char.ofNat (48 + n) else Char.ofNat (87 + n)

def hex (t : Text) : String :=
  String.ofList ('x' :: t.flatMap fun b => [hexChar (b / 16 % 16), hexChar (b % 16)])

def ohex : Option Text → String
  | none => "-"
  | some t => hex t

def b01 (b : Bool) : String := if b then "1" else "0"

def ordStr : Ordering → String
  | .lt => "<" | .eq => "=" | .gt => ">"

def five (s a : Option Text) (p : Text) (q f : Option Text) : String :=
  s!"{ohex s} {ohex a} {hex p} {ohex q} {ohex f}"

/-- `parts` operation on a valid value -/
def partsLine (full : Bool) (x : Text) : String :=
  if full then
    let r := Parse.parts x 0
    let all := five (some (slice x r.scheme)) (sliceO x r.authority) (slice x r.path)
      (sliceO x r.query) (sliceO x r.fragment)
    let ind := five (some (Ref.scheme x)) (Ref.authority x) (Ref.path x) (Ref.query x) (Ref.fragment x)
    s!"{all} | {ind}"
  else
    let r := Parse.reference_parts x 0
    let all := five (sliceO x r.scheme) (sliceO x r.authority) (slice x r.path)
      (sliceO x r.query) (sliceO x r.fragment)
    let ind := five (Ref.scheme_opt x) (Ref.authority x) (Ref.path x) (Ref.query x) (Ref.fragment x)
    s!"{all} | {ind}"

def authLine (x : Text) : String :=
  let r := Authority.parts x
  s!"{ohex (sliceO x r.user_info)} {hex (slice x r.host)} {ohex (sliceO x r.port)} | {ohex (Authority.user_info x)} {hex (Authority.host x)} {ohex (Authority.port x)}"

/-! ## histories -/

inductive HOp
  | ss (v : Option Text) | sa (v : Option Text) | sp (v : Text) | sq (v : Option Text)
  | sf (v : Option Text) | pm (ops : List PmOp) | am (ops : List AmOp) | res (base : Text)
  | pathop (op : PmOp)
  deriving Repr

def kindOf (f : Fam) (c : String) : Kind := (f.kind c).get!

def okArg (f : Fam) (c : String) (t : Text) : Bool := accepts (kindOf f c) t

def okArgO (f : Fam) (c : String) (t : Option Text) : Bool :=
  match t with
  | some t => okArg f c t
  | none => true

def pmArgOk (f : Fam) : PmOp → Bool
  | .push s => okArg f "segment" s
  | .spush s => okArg f "segment" s
  | .sapp p => okArg f "path" p
  | _ => true

def pmApply (h : PathMut) : PmOp → Option PathMut
  | .push s => h.push s
  | .pop => h.pop
  | .clear => h.clear
  | .spush s => h.symbolic_push_pub s
  | .sapp p => h.symbolic_append (Path.segmentList p)
  | .norm => h.normalize

/-- run a group of edits through one handle; output like the harness: `pm(v1,v2;` … -/
def pmGroup (f : Fam) : PathMut → List PmOp → Bool → String → String × Option PathMut
  | h, [], _, acc => (acc, some h)
  | h, op :: ops, first, acc =>
    if !pmArgOk f op then (acc ++ "invalid", none)
    else match pmApply h op with
      | none => ("PANIC", none)
      | some h' => pmGroup f h' ops false (acc ++ (if first then "" else ",") ++ hex h'.view)

def amArgOk (f : Fam) : AmOp → Bool
  | .ui v => okArgO f "userinfo" v
  | .host v => okArg f "host" v
  | .port v => okArgO f "port" v

def amApply (h : AuthorityMut) : AmOp → Option AuthorityMut
  | .ui v => h.set_userinfo v
  | .host v => h.set_host v
  | .port v => h.set_port v

def amGroup (f : Fam) : AuthorityMut → List AmOp → Bool → String → String × Option AuthorityMut
  | h, [], _, acc => (acc, some h)
  | h, op :: ops, first, acc =>
    if !amArgOk f op then (acc ++ "invalid", none)
    else match amApply h op with
      | none => ("PANIC", none)
      | some h' => amGroup f h' ops false (acc ++ (if first then "" else ",") ++ hex h'.as_authority)

/-- history on a reference / full buffer.  Returns the output tokens. -/
def histGo (f : Fam) (full : Bool) : Text → List HOp → List String → List String
  | _, [], acc => acc.reverse
  | b, op :: ops, acc =>
    let stop (t : String) := (t :: acc).reverse
    let cont (r : Option Text) :=
      match r with
      | none => ["PANIC"]
      | some b' => histGo f full b' ops (hex b' :: acc)
    match op with
    | .ss v =>
      match v with
      | none => if full then stop "invalid" else cont (Ref.set_scheme b none)
      | some s =>
        if !okArg f "scheme" s then stop "invalid"
        else if full then cont (Ref.set_scheme_full b s) else cont (Ref.set_scheme b (some s))
    | .sa v => if !okArgO f "authority" v then stop "invalid" else cont (Ref.set_authority b v)
    | .sp v => if !okArg f "path" v then stop "invalid" else cont (Ref.set_path b v)
    | .sq v => if !okArgO f "query" v then stop "invalid" else cont (Ref.set_query b v)
    | .sf v => if !okArgO f "fragment" v then stop "invalid" else cont (Ref.set_fragment b v)
    | .pm pops =>
      match pmGroup f (Ref.path_mut b) pops true "pm(" with
      | ("PANIC", _) => ["PANIC"]
      | (s, none) => stop s
      | (s, some h) => histGo f full h.buffer ops ((s ++ ";" ++ hex h.buffer ++ ")") :: acc)
    | .am aops =>
      match Ref.authority_mut b with
      | none => histGo f full b ops ("noauth" :: acc)
      | some h0 =>
        match amGroup f h0 aops true "am(" with
        | ("PANIC", _) => ["PANIC"]
        | (s, none) => stop s
        | (s, some h) => histGo f full h.data ops ((s ++ ";" ++ hex h.data ++ ")") :: acc)
    | .res base =>
      if !okArg f "full" base then stop "invalid"
      else if full then stop "invalid"
      else cont (Ref.resolve b base)
    | .pathop _ => ["bad-op"]

/-- history on a stand-alone path buffer -/
def histPathGo (f : Fam) : Text → List HOp → List String → List String
  | _, [], acc => acc.reverse
  | b, op :: ops, acc =>
    match op with
    | .pm pops =>
      match pmGroup f (PathMut.from_path b) pops true "pm(" with
      | ("PANIC", _) => ["PANIC"]
      | (s, none) => (s :: acc).reverse
      | (s, some h) => histPathGo f h.buffer ops ((s ++ ";" ++ hex h.buffer ++ ")") :: acc)
    | .pathop po =>
      if !pmArgOk f po then ("invalid" :: acc).reverse
      else match pmApply (PathMut.from_path b) po with
        | none => ["PANIC"]
        | some h => histPathGo f h.buffer ops (hex h.buffer :: acc)
    | _ => ["bad-op"]

def histLine (f : Fam) (kind : String) (b : Text) (ops : List HOp) : String :=
  let k := match kind with | "path" => "path" | "full" => "full" | _ => "ref"
  if !okArg f k b then "invalid"
  else
    let toks := if kind == "path" then histPathGo f b ops [] else histGo f (kind == "full") b ops []
    if toks.contains "PANIC" then "PANIC" else " ".intercalate toks

/-! ## resolution, relativisation, suffix, base -/

def resolveLine (f : Fam) (base r : Text) : String :=
  if !okArg f "full" base || !okArg f "ref" r then "invalid"
  else match Ref.resolve r base with
    | none => "PANIC"
    | some t => hex t

def reltoLine (f : Fam) (a b : Text) : String :=
  if !okArg f "full" a || !okArg f "full" b then "invalid"
  else match Ref.relative_to a b with
    | none => "PANIC"
    | some r =>
      match Ref.resolve r b with
      | none => "PANIC"
      | some back =>
        match Cmp.fullEq back a with
        | none => "PANIC"
        | some e => s!"{hex r} {hex back} {b01 e}"

def reltoRefLine (f : Fam) (a b : Text) : String :=
  if !okArg f "ref" a || !okArg f "ref" b then "invalid"
  else match Ref.relative_to a b with
    | none => "PANIC"
    | some r => hex r

def suffixLine (f : Fam) (full : Bool) (a p : Text) : String :=
  let k := if full then "full" else "ref"
  if !okArg f k a || !okArg f k p then "invalid"
  else match Ref.suffix a p with
    | none => "PANIC"
    | some none => "none"
    | some (some (s, q, fr)) => s!"{hex s} {ohex q} {ohex fr}"

def psuffixLine (f : Fam) (a p : Text) : String :=
  if !okArg f "path" a || !okArg f "path" p then "invalid"
  else match Cmp.pathSuffix a p with
    | none => "PANIC"
    | some none => "none"
    | some (some s) => hex s

def baseLine (f : Fam) (full : Bool) (a : Text) : String :=
  let k := if full then "full" else "ref"
  if !okArg f k a then "invalid" else hex (Ref.base a)

/-! ## path queries -/

def hexList (l : List Text) : String := ",".intercalate (l.map hex)

def pathqLine (f : Fam) (p : Text) : String :=
  if !okArg f "path" p then "invalid"
  else
    let norm := match Path.normalized p with | some t => hex t | none => "PANIC"
    let norm2 := match Path.normalized p with
      | some t => (match Path.normalized t with | some t2 => hex t2 | none => "PANIC")
      | none => "PANIC"
    s!"e={b01 (Path.is_empty p)} a={b01 (Path.is_absolute p)} n={(Path.segmentList p).length} first={ohex (Path.first p)} last={ohex (Path.last p)} fn={ohex (Path.file_name p)} dir={hex (Path.directory p)} par={ohex (Path.parent p)} poe={hex (Path.parent_or_empty p)} nlen={(Path.normalized_segments p).length} segs=[{hexList (Path.segmentList p)}] rsegs=[{hexList (Path.segmentListRev p)}] nsegs=[{hexList (Path.normalized_segments p)}] norm={norm} norm2={norm2}"

/-- `f` = `next`, `b` = `next_back`; a final `c` / `l` / `z` consumes what is left with
`Iterator::count` / `Iterator::last` / `size_hint` + `count` -/
def segsGo (p : Text) : Path.Segments → List Char → List String
  | _, [] => []
  | s, c :: cs =>
    if c == 'c' || c == 'l' || c == 'z' then
      let rest := Path.Segments.collect p (p.length + 2) s
      if c == 'c' then [s!"rest={rest.length}"]
      else if c == 'l' then [s!"last={ohex rest.getLast?}"]
      else [s!"hint=ok rest={rest.length}"]
    else if c == 'N' then
      -- `nth(1)`: skip one, yield the next
      let r1 := Path.Segments.next p s
      let r2 := Path.Segments.next p r1.2
      ohex r2.1 :: segsGo p r2.2 cs
    else if c == 'B' then
      -- `nth_back(1)`
      let r1 := Path.Segments.next_back p s
      let r2 := Path.Segments.next_back p r1.2
      ohex r2.1 :: segsGo p r2.2 cs
    else
      let r := if c == 'f' then Path.Segments.next p s else Path.Segments.next_back p s
      ohex r.1 :: segsGo p r.2 cs

def segsLine (f : Fam) (p : Text) (sched : String) : String :=
  if !okArg f "path" p then "invalid"
  else ",".intercalate (segsGo p (Path.segments p) sched.toList)

/-! ## comparison and hashing -/

def cmpFns (kind : String) :
    Option ((Text → Text → Option Bool) × (Text → Text → Option Ordering) × (Text → Option String)) :=
  match kind with
  | "full" => some (Cmp.fullEq, Cmp.fullCmp, Cmp.fullHash)
  | "ref" => some (Cmp.refEq, Cmp.refCmp, Cmp.refHash)
  | "authority" => some (Cmp.authorityEq, Cmp.authorityCmp, Cmp.authorityHash)
  | "path" => some (Cmp.pathEq, Cmp.pathCmp, Cmp.pathHash)
  | "userinfo" | "host" | "segment" | "query" | "fragment" =>
    some (Cmp.pctEq, Cmp.pctCmp, Cmp.pctHash)
  | _ => none

/-- `cmp` prints: equality, ordering, and whether the two hash traces coincide -/
def cmpLine (f : Fam) (kind : String) (a b : Text) : String :=
  if kind == "fullref" then
    if !okArg f "full" a || !okArg f "ref" b then "invalid"
    else match Cmp.refEq a b, Cmp.refCmp a b, Cmp.refEq b a, Cmp.refCmp b a with
      | some e1, some c1, some e2, some c2 => s!"{b01 e1} {ordStr c1} {b01 e2} {ordStr c2}"
      | _, _, _, _ => "PANIC"
  else match cmpFns kind with
    | none => "bad-op"
    | some (eq, cmp, h) =>
      if !okArg f kind a || !okArg f kind b then "invalid"
      else match eq a b, cmp a b, h a, h b with
        | some e, some c, some ha, some hb => s!"{b01 e} {ordStr c} {b01 (ha == hb)}"
        | _, _, _, _ => "PANIC"

/-- `cross` (C07/C08): every cross-type `==`/`partial_cmp` impl forwards to the parts comparison -/
def crossLine (f : Fam) (a b : Text) : String :=
  if !okArg f "ref" a || !okArg f "ref" b then "invalid"
  else match Cmp.refEq a b, Cmp.refCmp a b with
    | some e, some c =>
      let ci : String := match c with | .lt => "-1" | .eq => "0" | .gt => "1"
      s!"eq={b01 e} cmp={ci} cross=ok"
    | _, _ => "PANIC"

/-- `streq` (C14): comparison with plain text is comparison of the text -/
def streqLine (kind : String) (v : Text) : String :=
  match Kind.ofString? kind with
  | some k => if accepts k v then "ok" else "invalid"
  | none => "bad-op"

def hashLine (f : Fam) (kind : String) (a : Text) : String :=
  match cmpFns kind with
  | none => "bad-op"
  | some (_, _, h) =>
    if !okArg f kind a then "invalid"
    else match h a with
      | some s => if s.isEmpty then "e" else s
      | none => "PANIC"

end IrefVerif.Model
