import IrefVerif.Model.PathMut
import IrefVerif.Model.AuthorityMut
import IrefVerif.Model.Cmp

/-!
# Model of `crates/core/src/common/reference.rs` and `common/mod.rs`

The buffer is the text; every `&mut self` method returns the new text, `none` = panic.
The two families share this code in Rust (the traits are generic) and share it here.
-/

namespace IrefVerif.Model
open IrefVerif.Spec (Text cColon cSlash cQuest cHash cDot)
open IrefVerif.Model.Parse (Range slice)

namespace Ref

/-! ## accessors (`RiRefImpl`) -/

def scheme_opt (b : Text) : Option Text := (Parse.find_scheme b 0).map (slice b)
def authority (b : Text) : Option Text := (Parse.find_authority b 0).toOption.map (slice b)
def path (b : Text) : Text := slice b (Parse.find_path b 0)
def query (b : Text) : Option Text := (Parse.find_query b 0).toOption.map (slice b)
def fragment (b : Text) : Option Text := (Parse.find_fragment b 0).toOption.map (slice b)
/-- `RiImpl::scheme` -/
def scheme (b : Text) : Text := slice b (Parse.scheme b 0)

def startsWith (b p : Text) : Bool := p.isPrefixOf b

/-! ## setters (`RiRefBufImpl`) -/

def set_scheme (b : Text) (scheme : Option Text) : Option Text :=
  match scheme with
  | some new_scheme =>
    match Parse.find_scheme b 0 with
    | some r => splice b r new_scheme
    | none => splice b (0, 0) (new_scheme ++ [cColon])
  | none =>
    match Parse.find_scheme b 0 with
    | some r =>
      let value : Text :=
        if (authority b).isNone && Parse.first_segment_contains_colon (path b)
        then [cDot, cSlash] else []
      splice b (r.1, r.2 + 1) value
    | none => some b

/-- `RiBufImpl::set_scheme` (full URI/IRI: the scheme is mandatory) -/
def set_scheme_full (b : Text) (new_scheme : Text) : Option Text :=
  splice b (Parse.scheme b 0) new_scheme

def set_authority (b : Text) (a : Option Text) : Option Text :=
  match a with
  | some new_authority =>
    match Parse.find_authority b 0 with
    | .ok r => splice b r new_authority
    | .err start =>
      let path_is_empty := match b.drop start with
        | c :: _ => c == cQuest || c == cHash
        | [] => true
      if !path_is_empty && !startsWith (b.drop start) [cSlash] then
        splice b (start, start) ([cSlash, cSlash] ++ new_authority ++ [cSlash])
      else
        splice b (start, start) ([cSlash, cSlash] ++ new_authority)
  | none =>
    match Parse.find_authority b 0 with
    | .ok r =>
      let value : Text := if startsWith (b.drop r.2) [cSlash, cSlash] then [cSlash, cDot] else []
      if 2 ≤ r.1 then splice b (r.1 - 2, r.2) value else none
    | .err _ => some b

def set_path (b : Text) (p : Text) : Option Text :=
  let r := Parse.find_path b 0
  let has_authority := (authority b).isSome
  if !has_authority && startsWith p [cSlash, cSlash] then
    splice b r ([cSlash, cDot] ++ p)
  else if has_authority && Path.is_relative p && !p.isEmpty then
    splice b r (cSlash :: p)
  else if r.1 == 0 && Parse.first_segment_contains_colon p then
    splice b r ([cDot, cSlash] ++ p)
  else splice b r p

def set_query (b : Text) (q : Option Text) : Option Text :=
  match q with
  | some new_query =>
    match Parse.find_query b 0 with
    | .ok r => splice b r new_query
    | .err start => splice b (start, start) (cQuest :: new_query)
  | none =>
    match Parse.find_query b 0 with
    | .ok r => if 1 ≤ r.1 then splice b (r.1 - 1, r.2) [] else none
    | .err _ => some b

def set_fragment (b : Text) (f : Option Text) : Option Text :=
  match f with
  | some new_fragment =>
    match Parse.find_fragment b 0 with
    | .ok r => splice b r new_fragment
    | .err start => splice b (start, start) (cHash :: new_fragment)
  | none =>
    match Parse.find_fragment b 0 with
    | .ok r => if 1 ≤ r.1 then splice b (r.1 - 1, r.2) [] else none
    | .err _ => some b

/-- `path_mut()` -/
def path_mut (b : Text) : PathMut :=
  let r := Parse.find_path b 0
  PathMut.new b r.1 r.2

/-- `authority_mut()` -/
def authority_mut (b : Text) : Option AuthorityMut :=
  (Parse.find_authority b 0).toOption.map fun r => { data := b, start := r.1, «end» := r.2 }

/-! ## resolution -/

/-- `remove_dot_segments` -/
def remove_dot_segments (b : Text) : Option Text := do
  let p := path b
  let open_ := match (Path.Segments.next_back p (Path.segments p)).1 with
    | some s => s == [cDot] || s == [cDot, cDot]
    | none => false
  let h ← (path_mut b).normalize
  if open_ && !Path.is_empty h.view then (h.push []).map (·.buffer)
  else if h.view == [cSlash, cDot, cSlash] || h.view == [cDot, cSlash] then
    (h.clear).map (·.buffer)
  else some h.buffer

/-- `RiBufImpl::from_scheme` -/
def from_scheme (s : Text) : Text := s ++ [cColon]

/-- the `merged` buffer of the relative branch of `resolve`: the base's scheme and authority, the
normalised directory of its path, the reference's segments appended symbolically; the result is
the path of that buffer -/
def mergedPath (base : Text) (segments : List Text) : Option Text := do
  let pb0 := from_scheme (scheme base)
  let pb1 ← set_authority pb0 (authority base)
  let pb2 ←
    if (authority base).isSome && Path.is_empty (path base) then set_path pb1 [cSlash]
    else do
      let t ← set_path pb1 (Path.parent_or_empty (path base))
      (path_mut t).normalize.map (·.buffer)
  let h ← (path_mut pb2).symbolic_append segments
  -- popping a shielded empty segment leaves its `.` shield behind
  let h ← h.normalize
  -- a lone empty segment is the trailing `/` of the removed dot segments
  let h ← if h.view == [cSlash, cDot, cSlash] || h.view == [cDot, cSlash] then h.clear else some h
  some (path h.buffer)

/-- `RiRefBufImpl::resolve`; `base` is a full URI/IRI -/
def resolve (b base : Text) : Option Text :=
  let parts := Parse.reference_parts b 0
  if parts.scheme.isSome then remove_dot_segments b
  else do
    let b1 ← set_scheme b (some (scheme base))
    if parts.authority.isSome then remove_dot_segments b1
    else if Path.is_relative (path b1) && Path.is_empty (path b1) then do
      let b2 ← set_authority b1 (authority base)
      let b3 ← set_path b2 (path base)
      if (query b3).isNone then set_query b3 (query base) else some b3
    else if Path.is_absolute (path b1) then do
      let b2 ← set_authority b1 (authority base)
      remove_dot_segments b2
    else do
      let b2 ← set_authority b1 (authority base)
      let p ← mergedPath base (Path.segmentList (path b2))
      set_path b2 p

/-! ## `relative_to`, `suffix`, `base` -/

/-- the two-iterator loop of `relative_to` with `peek`: the last segment of the first list names
the target itself and takes no part in the comparison; the Boolean tells whether anything was
dropped -/
def dropCommon : List Text → List Text → List Text × List Text × Bool
  | a :: a2 :: as, b :: bs =>
    if Cmp.pctEq a b == some true then
      let r := dropCommon (a2 :: as) bs
      (r.1, r.2.1, true)
    else (a :: a2 :: as, b :: bs, false)
  | as, bs => (as, bs, false)

/-- `dropCommon` panics when a compared pair cannot be decoded -/
def dropCommonPanics : List Text → List Text → Bool
  | a :: a2 :: as, b :: bs =>
    match Cmp.pctEq a b with
    | none => true
    | some true => dropCommonPanics (a2 :: as) bs
    | some false => false
  | _, _ => false

def pushAll : Text → List Text → Option Text
  | b, [] => some b
  | b, s :: ss => do
    let h ← (path_mut b).push s
    pushAll h.buffer ss

/-- the whole of `a`, dot segments removed the way `==` reads them -/
def whole (a : Text) : Option Text := (path_mut a).normalize.map (·.buffer)

/-- the path part of `relative_to`, once schemes and authorities agree: `..` for every remaining
segment of the base's directory, then the remaining segments of `a`; query and fragment of `a` -/
def relative_body (a other : Text) : Option Text :=
  let otherAbs := Path.is_absolute (path other) || ((authority other).isSome && Path.is_empty (path other))
  if Path.is_absolute (path a) != otherAbs then whole a
  else
    let self_segments := Path.normalized_segments (path a)
    let base_segments := Path.normalized_segments (Path.parent_or_empty (path other))
    if self_segments.head? == some [cDot, cDot] || base_segments.head? == some [cDot, cDot] then whole a
    else if dropCommonPanics self_segments base_segments then none
    else
      let d := dropCommon self_segments base_segments
      if !d.2.2 && d.1.head? == some [] then whole a
      else do
        let r1 ← pushAll [] (d.2.1.map fun _ => [cDot, cDot])
        let r2 ← pushAll r1 d.1
        let r2 ← if Path.is_empty (path r2) then ((path_mut r2).push []).map (·.buffer) else some r2
        let r3 ←
          if ((query a).isSome || (fragment a).isSome)
              && ((query a).isSome || (query other).isNone)
              && some (path r2) == Path.last (path other)
          then ((path_mut r2).clear).map (·.buffer) else some r2
        let r4 ← set_query r3 (query a)
        set_fragment r4 (fragment a)

/-- `RiRefImpl::relative_to` (on references) -/
def relative_to (a other : Text) : Option Text :=
  let sa := scheme_opt a
  let so := scheme_opt other
  let schemeMismatch := match sa, so with
    | some x, some y => x != y
    | _, _ => false
  if schemeMismatch then whole a
  else
    match authority a, authority other with
    | some x, some y =>
      match Cmp.authorityEq x y with
      | none => none
      | some false => whole a
      | some true => relative_body a other
    | none, none => relative_body a other
    | _, _ => whole a

/-- `RiRefImpl::suffix` -/
def suffix (a prefix_ : Text) : Option (Option (Text × Option Text × Option Text)) :=
  -- outer `none`: panic; inner `none`: no suffix
  let schemeEq := scheme_opt a == scheme_opt prefix_
  let authEq : Option Bool := match authority a, authority prefix_ with
    | some x, some y => Cmp.authorityEq x y
    | none, none => some true
    | _, _ => some false
  if !schemeEq then some none
  else match authEq with
    | none => none
    | some false => some none
    | some true =>
      match Cmp.pathSuffix (path a) (path prefix_) with
      | none => none
      | some none => some none
      | some (some s) => some (some (s, query a, fragment a))

/-- `RiRefImpl::base` -/
def base (b : Text) : Text :=
  let r := Parse.find_path b 0
  let p := slice b r
  b.take (r.1 + (Path.directory p).length)

end Ref
end IrefVerif.Model
