import IrefVerif.Driver

partial def loop (h : IO.FS.Stream) (out : IO.FS.Stream) : IO Unit := do
  let line ← h.getLine
  if line.isEmpty then return ()
  let l := if line.endsWith "\n" then (line.dropEnd 1).toString else line
  out.putStrLn (IrefVerif.Driver.answer l)
  loop h out

def main : IO Unit := do
  let stdin ← IO.getStdin
  let stdout ← IO.getStdout
  loop stdin stdout
