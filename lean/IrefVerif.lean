import IrefVerif.Spec.Regex
import IrefVerif.Spec.Rfc3986
import IrefVerif.Spec.Rfc3987
import IrefVerif.Model.Dfa
