//! Further operations: conversions (C13), textual routes out (C14), views/lookups (C08),
//! data URLs (C18), percent-decoded views (C19), pointer provenance and allocation counting (C20).

use crate::ops::{b01, trace};
use crate::{hex, ohex, unhex, ALLOCS, COUNTING};
use iref::{Iri, IriBuf, IriRef, IriRefBuf, Uri, UriBuf, UriRef, UriRefBuf};
use std::borrow::Borrow;
use std::collections::{BTreeSet, HashSet};
use std::convert::TryFrom;
use std::panic::{catch_unwind, AssertUnwindSafe};
use std::sync::atomic::Ordering as AO;

fn okb(text: &[u8], input: &[u8]) -> &'static str {
    if text == input {
        "ok"
    } else {
        "OKCHANGED"
    }
}

fn optb(r: Option<&[u8]>, input: &[u8]) -> &'static str {
    match r {
        Some(t) => okb(t, input),
        None => "none",
    }
}

fn resb(r: Result<Vec<u8>, Vec<u8>>, input: &[u8]) -> &'static str {
    match r {
        Ok(t) => okb(&t, input),
        Err(p) => {
            if p == input {
                "err"
            } else {
                "ERRCHANGED"
            }
        }
    }
}

/// `convert KIND x..`
pub fn convert(kind: &str, b: &[u8]) -> Option<String> {
    let mut out: Vec<(&str, &str)> = Vec::new();
    match kind {
        "uri" => {
            let Ok(v) = Uri::new(b) else { return Some("invalid".into()) };
            out.push(("as_uri_ref", okb(v.as_uri_ref().as_bytes(), b)));
            out.push(("as_iri", okb(v.as_iri().as_bytes(), b)));
            out.push(("as_iri_ref", okb(v.as_iri_ref().as_bytes(), b)));
            let r: &UriRef = v.as_ref();
            out.push(("asref_uri_ref", okb(r.as_bytes(), b)));
            let r: &Iri = v.borrow();
            out.push(("borrow_iri", okb(r.as_bytes(), b)));
            let o = v.to_owned();
            out.push(("into_uri_ref", okb(o.clone().into_uri_ref().as_bytes(), b)));
            out.push(("into_iri", okb(o.clone().into_iri().as_bytes(), b)));
            out.push(("into_iri_ref", okb(o.clone().into_iri_ref().as_bytes(), b)));
            out.push(("from_buf", okb(UriRefBuf::from(o).as_bytes(), b)));
        }
        "uriref" => {
            let Ok(v) = UriRef::new(b) else { return Some("invalid".into()) };
            out.push(("as_uri", optb(v.as_uri().map(|x| x.as_bytes()), b)));
            out.push(("as_iri", optb(v.as_iri().map(|x| x.as_bytes()), b)));
            out.push(("as_iri_ref", okb(v.as_iri_ref().as_bytes(), b)));
            out.push(("try_from_uri", resb(<&Uri>::try_from(v).map(|x| x.as_bytes().to_vec()).map_err(|e| e.0.as_bytes().to_vec()), b)));
            out.push(("try_from_iri", resb(<&Iri>::try_from(v).map(|x| x.as_bytes().to_vec()).map_err(|e| e.0.as_bytes().to_vec()), b)));
            let r: &IriRef = v.into();
            out.push(("from_iri_ref", okb(r.as_bytes(), b)));
            let o = v.to_owned();
            out.push(("try_into_uri", resb(o.clone().try_into_uri().map(|x| x.as_bytes().to_vec()).map_err(|e| e.0.as_bytes().to_vec()), b)));
            out.push(("try_into_iri", resb(o.clone().try_into_iri().map(|x| x.as_bytes().to_vec()).map_err(|e| e.0.as_bytes().to_vec()), b)));
            out.push(("into_iri_ref", okb(o.clone().into_iri_ref().as_bytes(), b)));
            out.push(("tryfrom_buf_uri", resb(UriBuf::try_from(o.clone()).map(|x| x.as_bytes().to_vec()).map_err(|e| e.0.as_bytes().to_vec()), b)));
            out.push(("tryfrom_buf_iri", resb(IriBuf::try_from(o.clone()).map(|x| x.as_bytes().to_vec()).map_err(|e| e.0.as_bytes().to_vec()), b)));
            out.push(("from_buf_iri_ref", okb(IriRefBuf::from(o).as_bytes(), b)));
        }
        "iri" => {
            let Ok(s) = std::str::from_utf8(b) else { return Some("invalid".into()) };
            let Ok(v) = Iri::new(s) else { return Some("invalid".into()) };
            out.push(("as_iri_ref", okb(v.as_iri_ref().as_bytes(), b)));
            out.push(("as_uri", optb(v.as_uri().map(|x| x.as_bytes()), b)));
            out.push(("as_uri_ref", optb(v.as_uri_ref().map(|x| x.as_bytes()), b)));
            out.push(("try_from_uri", resb(<&Uri>::try_from(v).map(|x| x.as_bytes().to_vec()).map_err(|e| e.0.as_bytes().to_vec()), b)));
            out.push(("try_from_uri_ref", resb(<&UriRef>::try_from(v).map(|x| x.as_bytes().to_vec()).map_err(|e| e.0.as_bytes().to_vec()), b)));
            let r: &IriRef = v.into();
            out.push(("from_iri_ref", okb(r.as_bytes(), b)));
            let o = v.to_owned();
            out.push(("into_iri_ref", okb(o.clone().into_iri_ref().as_bytes(), b)));
            out.push(("try_into_uri", resb(o.clone().try_into_uri().map(|x| x.as_bytes().to_vec()).map_err(|e| e.0.as_bytes().to_vec()), b)));
            out.push(("try_into_uri_ref", resb(o.clone().try_into_uri_ref().map(|x| x.as_bytes().to_vec()).map_err(|e| e.0.as_bytes().to_vec()), b)));
            out.push(("from_buf", okb(IriRefBuf::from(o).as_bytes(), b)));
        }
        "iriref" => {
            let Ok(s) = std::str::from_utf8(b) else { return Some("invalid".into()) };
            let Ok(v) = IriRef::new(s) else { return Some("invalid".into()) };
            out.push(("as_iri", optb(v.as_iri().map(|x| x.as_bytes()), b)));
            out.push(("as_uri", optb(v.as_uri().map(|x| x.as_bytes()), b)));
            out.push(("as_uri_ref", optb(v.as_uri_ref().map(|x| x.as_bytes()), b)));
            out.push(("try_from_iri", resb(<&Iri>::try_from(v).map(|x| x.as_bytes().to_vec()).map_err(|e| e.0.as_bytes().to_vec()), b)));
            out.push(("try_from_uri", resb(<&Uri>::try_from(v).map(|x| x.as_bytes().to_vec()).map_err(|e| e.0.as_bytes().to_vec()), b)));
            out.push(("try_from_uri_ref", resb(<&UriRef>::try_from(v).map(|x| x.as_bytes().to_vec()).map_err(|e| e.0.as_bytes().to_vec()), b)));
            let o = v.to_owned();
            out.push(("try_into_iri", resb(o.clone().try_into_iri().map(|x| x.as_bytes().to_vec()).map_err(|e| e.0.as_bytes().to_vec()), b)));
            out.push(("try_into_uri", resb(o.clone().try_into_uri().map(|x| x.as_bytes().to_vec()).map_err(|e| e.0.as_bytes().to_vec()), b)));
            out.push(("try_into_uri_ref", resb(o.clone().try_into_uri_ref().map(|x| x.as_bytes().to_vec()).map_err(|e| e.0.as_bytes().to_vec()), b)));
            out.push(("tryfrom_buf_iri", resb(IriBuf::try_from(o.clone()).map(|x| x.as_bytes().to_vec()).map_err(|e| e.0.as_bytes().to_vec()), b)));
            out.push(("tryfrom_buf_uri", resb(UriBuf::try_from(o.clone()).map(|x| x.as_bytes().to_vec()).map_err(|e| e.0.as_bytes().to_vec()), b)));
            out.push(("tryfrom_buf_uri_ref", resb(UriRefBuf::try_from(o).map(|x| x.as_bytes().to_vec()).map_err(|e| e.0.as_bytes().to_vec()), b)));
        }
        _ => return None,
    }
    Some(out.iter().map(|(n, v)| format!("{}={}", n, v)).collect::<Vec<_>>().join(" "))
}

// ---------------------------------------------------------------------------
// textual routes out (C14)

macro_rules! routes_kind {
    ($B:ty, $O:ty, $new:expr, $b:expr) => {{
        let b: &[u8] = $b;
        let Ok(s) = std::str::from_utf8(b) else { return Some("invalid".into()) };
        let Some(v): Option<&$B> = ($new)(b, s) else { return Some("invalid".into()) };
        let mut bad: Vec<&str> = Vec::new();
        if format!("{}", v) != s { bad.push("display") }
        if format!("{:?}", v) != format!("{:?}", s) { bad.push("debug") }
        if v.as_str() != s { bad.push("as_str") }
        if v.as_bytes() != b { bad.push("as_bytes") }
        let r: &str = v.as_ref();
        if r != s { bad.push("asref_str") }
        let r: &[u8] = v.as_ref();
        if r != b { bad.push("asref_bytes") }
        let o: $O = v.to_owned();
        if o.as_bytes() != b { bad.push("to_owned") }
        if format!("{}", o) != s { bad.push("owned_display") }
        if format!("{:?}", o) != format!("{:?}", s) { bad.push("owned_debug") }
        if o.clone().as_bytes() != b { bad.push("clone") }
        if o.clone().into_string() != s { bad.push("into_string") }
        if String::from(o.clone()) != s { bad.push("from_string") }
        if serde_json::to_string(v).ok() != serde_json::to_string(s).ok() { bad.push("serde") }
        if serde_json::to_string(&o).ok() != serde_json::to_string(s).ok() { bad.push("owned_serde") }
        if !(*v == s) { bad.push("eq_str") }
        let other = format!("{}x", s);
        if *v == other.as_str() { bad.push("eq_str_other") }
        if bad.is_empty() { Some("1".to_string()) } else { Some(format!("ROUTES {}", bad.join(","))) }
    }};
}

pub fn routes(kind: &str, b: &[u8]) -> Option<String> {
    use iref::{iri, uri};
    match kind {
        "uri" => routes_kind!(Uri, UriBuf, |b: &'static [u8], _s| Uri::new(b).ok(), leak(b)),
        "uriRef" => routes_kind!(UriRef, UriRefBuf, |b: &'static [u8], _s| UriRef::new(b).ok(), leak(b)),
        "uriAuthority" => routes_kind!(uri::Authority, uri::AuthorityBuf, |b: &'static [u8], _s| uri::Authority::new(b).ok(), leak(b)),
        "uriUserInfo" => routes_kind!(uri::UserInfo, uri::UserInfoBuf, |b: &'static [u8], _s| uri::UserInfo::new(b).ok(), leak(b)),
        "iri" => routes_kind!(Iri, IriBuf, |_b, s: &'static str| Iri::new(s).ok(), leak(b)),
        "iriRef" => routes_kind!(IriRef, IriRefBuf, |_b, s: &'static str| IriRef::new(s).ok(), leak(b)),
        "iriAuthority" => routes_kind!(iri::Authority, iri::AuthorityBuf, |_b, s: &'static str| iri::Authority::new(s).ok(), leak(b)),
        "iriUserInfo" => routes_kind!(iri::UserInfo, iri::UserInfoBuf, |_b, s: &'static str| iri::UserInfo::new(s).ok(), leak(b)),
        _ => None,
    }
}

fn leak(b: &[u8]) -> &'static [u8] {
    Box::leak(b.to_vec().into_boxed_slice())
}

// ---------------------------------------------------------------------------
// views of one value as map keys (C08)

pub fn views(fam: &str, b: &[u8]) -> Option<String> {
    match fam {
        "u" => {
            let Ok(v) = Uri::new(b) else { return Some("invalid".into()) };
            let o = v.to_owned();
            let ts = [
                trace(v), trace(&o), trace(v.as_uri_ref()), trace(&v.as_uri_ref().to_owned()),
                trace(v.as_iri()), trace(&v.as_iri().to_owned()), trace(v.as_iri_ref()),
                trace(&v.as_iri_ref().to_owned()),
            ];
            let same = ts.iter().all(|t| *t == ts[0]);
            let mut hs: HashSet<UriBuf> = HashSet::new();
            hs.insert(o.clone());
            let mut bs: BTreeSet<UriBuf> = BTreeSet::new();
            bs.insert(o.clone());
            let l = [
                hs.contains(v), hs.contains(v.as_uri_ref()), hs.contains(v.as_iri()), hs.contains(v.as_iri_ref()),
                bs.contains(v), bs.contains(v.as_uri_ref()), bs.contains(v.as_iri()), bs.contains(v.as_iri_ref()),
            ];
            let mut hr: HashSet<UriRefBuf> = HashSet::new();
            hr.insert(o.clone().into_uri_ref());
            let l2 = hr.contains(v.as_uri_ref());
            let cross = *v == *v.as_uri_ref() && *v.as_uri_ref() == *v && v.partial_cmp(v.as_uri_ref()) == Some(std::cmp::Ordering::Equal);
            Some(format!("hash={} lookup={}{} cross={}", if same { "same" } else { "DIFF" },
                l.iter().map(|x| b01(*x)).collect::<String>(), b01(l2), b01(cross)))
        }
        "i" => {
            let Ok(s) = std::str::from_utf8(b) else { return Some("invalid".into()) };
            let Ok(v) = Iri::new(s) else { return Some("invalid".into()) };
            let o = v.to_owned();
            let ts = [trace(v), trace(&o), trace(v.as_iri_ref()), trace(&v.as_iri_ref().to_owned())];
            let same = ts.iter().all(|t| *t == ts[0]);
            let mut hs: HashSet<IriBuf> = HashSet::new();
            hs.insert(o.clone());
            let mut bs: BTreeSet<IriBuf> = BTreeSet::new();
            bs.insert(o.clone());
            let l = [hs.contains(v), hs.contains(v.as_iri_ref()), bs.contains(v), bs.contains(v.as_iri_ref())];
            let mut hr: HashSet<IriRefBuf> = HashSet::new();
            hr.insert(o.clone().into_iri_ref());
            let l2 = hr.contains(v.as_iri_ref());
            let cross = *v == *v.as_iri_ref() && *v.as_iri_ref() == *v && v.partial_cmp(v.as_iri_ref()) == Some(std::cmp::Ordering::Equal);
            Some(format!("hash={} lookup={}{} cross={}", if same { "same" } else { "DIFF" },
                l.iter().map(|x| b01(*x)).collect::<String>(), b01(l2), b01(cross)))
        }
        _ => None,
    }
}

// ---------------------------------------------------------------------------
// data URLs (C18)

pub fn dataurl(b: &[u8]) -> Option<String> {
    use iref::uri::data::{DataUrl, DataUrlBuf};
    let br = DataUrl::new(b);
    let ow = DataUrlBuf::new(b.to_vec());
    match (br, ow) {
        (Err(_), Err(e)) => Some(if e.0 == b { "0".into() } else { "ERRCHANGED".into() }),
        (Ok(_), Err(_)) => Some("ACCEPT-DIFF borrowed-only".into()),
        (Err(_), Ok(_)) => Some("ACCEPT-DIFF owned-only".into()),
        (Ok(v), Ok(o)) => {
            let fmt = |mt: Option<&str>, b64: bool, data: &str| {
                format!("{} {} {}", ohex(mt.map(|s| s.as_bytes())), b01(b64), hex(data.as_bytes()))
            };
            let a1 = fmt(v.media_type(), v.is_base_64_encoded(), v.encoded_data());
            let p = v.parts();
            let a2 = fmt(p.media_type, p.base_64, p.data);
            let a3 = fmt(o.media_type(), o.is_base_64_encoded(), o.encoded_data());
            let p = o.parts();
            let a4 = fmt(p.media_type, p.base_64, p.data);
            let dec = |r: Result<std::borrow::Cow<[u8]>, _>| match r {
                Ok(d) => hex(&d),
                Err::<_, base64::DecodeError>(_) => "b64err".to_string(),
            };
            let d1 = dec(v.decoded_data());
            let d2 = dec(o.decoded_data());
            let text = v.as_str().as_bytes() == b && o.as_str().as_bytes() == b;
            if a1 == a2 && a1 == a3 && a1 == a4 && d1 == d2 && text {
                Some(format!("{} {}", a1, d1))
            } else {
                Some(format!("VIEWS-DIFF {} | {} | {} | {} | {} | {} | {}", a1, a2, a3, a4, d1, d2, b01(text)))
            }
        }
    }
}

// ---------------------------------------------------------------------------
// percent-decoded views (C19)

fn guarded<F: FnOnce() -> String>(f: F) -> String {
    match catch_unwind(AssertUnwindSafe(f)) {
        Ok(s) => s,
        Err(_) => "PANIC".to_string(),
    }
}

macro_rules! pct_kind {
    ($T:ty, $inp:expr, $b:expr) => {{
        let Ok(v) = <$T>::new($inp) else { return Some("invalid".into()) };
        let p = v.as_pct_str();
        let bytes = guarded(|| hex(&p.bytes().collect::<Vec<u8>>()));
        let chars = guarded(|| p.chars().map(|c| format!("{:x}", c as u32)).collect::<Vec<_>>().join("."));
        let len = guarded(|| p.len().to_string());
        let dec = guarded(|| hex(p.decode().as_bytes()));
        let eqd = guarded(|| {
            let d = p.decode();
            b01(*p == *d.as_str()).to_string()
        });
        let text = p.as_bytes() == $b;
        Some(format!("bytes={} chars=[{}] len={} decode={} eqdecoded={} text={}", bytes, chars, len, dec, eqd, b01(text)))
    }};
}

pub fn pct(fam: &str, kind: &str, b: &[u8]) -> Option<String> {
    use iref::{iri, uri};
    match fam {
        "u" => match kind {
            "segment" => pct_kind!(uri::Segment, b, b),
            "userinfo" => pct_kind!(uri::UserInfo, b, b),
            "host" => pct_kind!(uri::Host, b, b),
            "query" => pct_kind!(uri::Query, b, b),
            "fragment" => pct_kind!(uri::Fragment, b, b),
            _ => None,
        },
        "i" => {
            let Ok(s) = std::str::from_utf8(b) else { return Some("invalid".into()) };
            match kind {
                "segment" => pct_kind!(iri::Segment, s, b),
                "userinfo" => pct_kind!(iri::UserInfo, s, b),
                "host" => pct_kind!(iri::Host, s, b),
                "query" => pct_kind!(iri::Query, s, b),
                "fragment" => pct_kind!(iri::Fragment, s, b),
                _ => None,
            }
        }
        _ => None,
    }
}

/// `pctref FAM x..`: the octet view of every percent-encoded component of a whole reference,
/// reached the way a caller reaches them (parts, authority parts, segment iteration).
macro_rules! pctref_fam {
    ($fname:ident, $Ref:ty, $conv:expr) => {
        fn $fname(b: &[u8]) -> Option<String> {
            let inp = ($conv)(b)?;
            let Ok(v) = <$Ref>::new(inp) else { return Some("invalid".into()) };
            let oct = |p: &pct_str::PctStr| guarded(|| hex(&p.bytes().collect::<Vec<u8>>()));
            let p = v.parts();
            let ap = p.authority.map(|a| a.parts());
            let ui = match ap.as_ref().and_then(|a| a.user_info) { Some(u) => oct(u.as_pct_str()), None => "-".into() };
            let host = match ap.as_ref() { Some(a) => oct(a.host.as_pct_str()), None => "-".into() };
            let segs: Vec<String> = p.path.segments().map(|s| oct(s.as_pct_str())).collect();
            let rsegs: Vec<String> = p.path.segments().rev().map(|s| oct(s.as_pct_str())).collect();
            let q = match p.query { Some(q) => oct(q.as_pct_str()), None => "-".into() };
            let f = match p.fragment { Some(f) => oct(f.as_pct_str()), None => "-".into() };
            let mut rr = rsegs.clone();
            rr.reverse();
            Some(format!("ui={} host={} segs=[{}] rev={} query={} fragment={}", ui, host, segs.join(","), b01(rr == segs), q, f))
        }
    };
}
pctref_fam!(pctref_u, iref::UriRef, conv_u);
pctref_fam!(pctref_i, iref::IriRef, conv_i);

// ---------------------------------------------------------------------------
// pointer provenance and allocation counting (C20)

fn loc(base: &[u8], s: &[u8]) -> String {
    let b0 = base.as_ptr() as usize;
    let p = s.as_ptr() as usize;
    if p >= b0 && p + s.len() <= b0 + base.len() {
        format!("{}+{}", p - b0, s.len())
    } else {
        format!("const:{}", hex(s))
    }
}

fn oloc(base: &[u8], s: Option<&[u8]>) -> String {
    match s {
        Some(s) => loc(base, s),
        None => "-".into(),
    }
}

macro_rules! ptr_fam {
    ($fname:ident, $Ri:ident, $Ref:ident, $md:ident, $conv:expr) => {
        fn $fname(full: bool, b: &[u8]) -> Option<String> {
            use iref::$md::{Authority, Path};
            let inp = ($conv)(b)?;
            // everything below runs with the allocation counter on
            let mut acc: Option<(Option<&[u8]>, Option<&[u8]>, &[u8], Option<&[u8]>, Option<&[u8]>)> = None;
            ALLOCS.store(0, AO::Relaxed);
            COUNTING.store(true, AO::Relaxed);
            let parsed: Option<(Option<&[u8]>, Option<&Authority>, &Path, Option<&[u8]>, Option<&[u8]>, &[u8], &[u8])> = if full {
                match $Ri::new(inp) {
                    Ok(v) => {
                        let p = v.parts();
                        // the stand-alone accessors scan the text again, each on its own
                        acc = Some((Some(v.scheme().as_bytes()), v.authority().map(|x| x.as_bytes()),
                                    v.path().as_bytes(), v.query().map(|x| x.as_bytes()),
                                    v.fragment().map(|x| x.as_bytes())));
                        Some((Some(p.scheme.as_bytes()), p.authority, p.path, p.query.map(|x| x.as_bytes()),
                              p.fragment.map(|x| x.as_bytes()), v.as_bytes(), v.base().as_bytes()))
                    }
                    Err(_) => None,
                }
            } else {
                match $Ref::new(inp) {
                    Ok(v) => {
                        let p = v.parts();
                        acc = Some((v.scheme().map(|x| x.as_bytes()), v.authority().map(|x| x.as_bytes()),
                                    v.path().as_bytes(), v.query().map(|x| x.as_bytes()),
                                    v.fragment().map(|x| x.as_bytes())));
                        Some((p.scheme.map(|x| x.as_bytes()), p.authority, p.path, p.query.map(|x| x.as_bytes()),
                              p.fragment.map(|x| x.as_bytes()), v.as_bytes(), v.base().as_bytes()))
                    }
                    Err(_) => None,
                }
            };
            let Some((s, a, p, q, f, whole, base)) = parsed else {
                COUNTING.store(false, AO::Relaxed);
                return Some("invalid".into());
            };
            let ap = a.map(|a| a.parts());
            let ui = ap.as_ref().and_then(|x| x.user_info.map(|u| AsRef::<[u8]>::as_ref(u)));
            let host = ap.as_ref().map(|x| AsRef::<[u8]>::as_ref(x.host));
            let port = ap.as_ref().and_then(|x| x.port.map(|u| u.as_bytes()));
            let first = p.first().map(|x| AsRef::<[u8]>::as_ref(x));
            let last = p.last().map(|x| AsRef::<[u8]>::as_ref(x));
            let fname = p.file_name().map(|x| AsRef::<[u8]>::as_ref(x));
            let dir = p.directory().as_bytes();
            let par = p.parent().map(|x| x.as_bytes());
            let poe = p.parent_or_empty().as_bytes();
            let mut nseg = 0usize;
            let mut seg_inside = true;
            let b0 = b.as_ptr() as usize;
            for sg in p.segments() {
                nseg += 1;
                let sb: &[u8] = sg.as_ref();
                let pp = sb.as_ptr() as usize;
                if !(pp >= b0 && pp + sb.len() <= b0 + b.len()) {
                    seg_inside = false;
                }
            }
            for sg in p.segments().rev() {
                let sb: &[u8] = sg.as_ref();
                let pp = sb.as_ptr() as usize;
                if !(pp >= b0 && pp + sb.len() <= b0 + b.len()) {
                    seg_inside = false;
                }
            }
            COUNTING.store(false, AO::Relaxed);
            let allocs = ALLOCS.load(AO::Relaxed);
            let acc = match acc {
                Some((s, a, p, q, f)) => format!(
                    "ascheme={} aauthority={} apath={} aquery={} afragment={}",
                    oloc(b, s), oloc(b, a), loc(b, p), oloc(b, q), oloc(b, f)),
                None => String::new(),
            };
            Some(format!(
                "whole={} scheme={} authority={} path={} query={} fragment={} userinfo={} host={} port={} first={} last={} fn={} dir={} par={} poe={} base={} nseg={} segs_inside={} allocs={} {}",
                loc(b, whole), oloc(b, s), oloc(b, a.map(|x| x.as_bytes())), loc(b, p.as_bytes()), oloc(b, q), oloc(b, f),
                oloc(b, ui), oloc(b, host), oloc(b, port), oloc(b, first), oloc(b, last), oloc(b, fname),
                loc(b, dir), oloc(b, par), loc(b, poe), loc(b, base), nseg, b01(seg_inside), allocs, acc
            ))
        }
    };
}

fn conv_u(b: &[u8]) -> Option<&[u8]> {
    Some(b)
}
fn conv_i(b: &[u8]) -> Option<&str> {
    std::str::from_utf8(b).ok()
}

ptr_fam!(ptr_u, Uri, UriRef, uri, conv_u);
ptr_fam!(ptr_i, Iri, IriRef, iri, conv_i);

pub fn dispatch(t: &[&str]) -> Option<String> {
    match *t.first()? {
        "convert" => convert(t.get(1)?, &unhex(t.get(2)?)?),
        "routes" => routes(t.get(1)?, &unhex(t.get(2)?)?),
        "views" => views(t.get(1)?, &unhex(t.get(2)?)?),
        "dataurl" => dataurl(&unhex(t.get(1)?)?),
        "pct" => pct(t.get(1)?, t.get(2)?, &unhex(t.get(3)?)?),
        "pctref" => match *t.get(1)? {
            "u" => pctref_u(&unhex(t.get(2)?)?),
            "i" => pctref_i(&unhex(t.get(2)?)?),
            _ => None,
        },
        "ptrbig" => {
            // inputs far larger than any inline buffer: only the summary is printed (the Lean
            // model is list-based and is not asked to re-derive megabyte-sized offsets)
            let full = match *t.get(2)? {
                "full" => true,
                "ref" => false,
                _ => return None,
            };
            let b = unhex(t.get(3)?)?;
            let r = match *t.get(1)? {
                "u" => ptr_u(full, &b),
                "i" => ptr_i(full, &b),
                _ => return None,
            }?;
            let keep: Vec<&str> = r
                .split(' ')
                .filter(|kv| kv.starts_with("whole=") || kv.starts_with("segs_inside=") || kv.starts_with("allocs="))
                .collect();
            Some(format!("len={} {}", b.len(), keep.join(" ")))
        }
        "ptr" => {
            let full = match *t.get(2)? {
                "full" => true,
                "ref" => false,
                _ => return None,
            };
            let b = unhex(t.get(3)?)?;
            let r = match *t.get(1)? {
                "u" => ptr_u(full, &b),
                "i" => ptr_i(full, &b),
                _ => return None,
            };
            Some(r.unwrap_or_else(|| "invalid".into()))
        }
        _ => None,
    }
}
