//! Further operations: conversions (C13), textual routes out (C14), views/lookups (C08),
//! data URLs (C18), percent-decoded views (C19), pointer provenance and allocation counting (C20).

use crate::ops::{b01, trace};
use crate::{hex, ohex, unhex, ALLOCS, COUNTING};
use iref::{Iri, IriBuf, IriRef, IriRefBuf, Uri, UriBuf, UriRef, UriRefBuf};
use std::borrow::Borrow;
use std::collections::{BTreeSet, HashSet};
use std::convert::TryFrom;
use std::panic::{catch_unwind, AssertUnwindSafe};
use std::sync::atomic::Ordering as AO;

fn okb(text: &[u8], input: &[u8]) -> &'static str {
    if text == input {
        "ok"
    } else {
        "OKCHANGED"
    }
}

fn optb(r: Option<&[u8]>, input: &[u8]) -> &'static str {
    match r {
        Some(t) => okb(t, input),
        None => "none",
    }
}

fn resb(r: Result<Vec<u8>, Vec<u8>>, input: &[u8]) -> &'static str {
    match r {
        Ok(t) => okb(&t, input),
        Err(p) => {
            if p == input {
                "err"
            } else {
                "ERRCHANGED"
            }
        }
    }
}

/// `convert KIND x..`
pub fn convert(kind: &str, b: &[u8]) -> Option<String> {
    let mut out: Vec<(&str, &str)> = Vec::new();
    match kind {
        "uri" => {
            let Ok(v) = Uri::new(b) else { return Some("invalid".into()) };
            out.push(("as_uri_ref", okb(v.as_uri_ref().as_bytes(), b)));
            out.push(("as_iri", okb(v.as_iri().as_bytes(), b)));
            out.push(("as_iri_ref", okb(v.as_iri_ref().as_bytes(), b)));
            let r: &UriRef = v.as_ref();
            out.push(("asref_uri_ref", okb(r.as_bytes(), b)));
            let r: &Iri = v.borrow();
            out.push(("borrow_iri", okb(r.as_bytes(), b)));
            let o = v.to_owned();
            out.push(("into_uri_ref", okb(o.clone().into_uri_ref().as_bytes(), b)));
            out.push(("into_iri", okb(o.clone().into_iri().as_bytes(), b)));
            out.push(("into_iri_ref", okb(o.clone().into_iri_ref().as_bytes(), b)));
            out.push(("from_buf", okb(UriRefBuf::from(o).as_bytes(), b)));
            // the unchecked up-casts must produce what the checked IRI constructors accept
            let txt = std::str::from_utf8(b).ok();
            out.push(("iri_accepts", if txt.map_or(false, |t| Iri::new(t).is_ok()) { "ok" } else { "REJECTED" }));
            out.push(("iri_ref_accepts", if txt.map_or(false, |t| IriRef::new(t).is_ok()) { "ok" } else { "REJECTED" }));
        }
        "uriref" => {
            let Ok(v) = UriRef::new(b) else { return Some("invalid".into()) };
            out.push(("as_uri", optb(v.as_uri().map(|x| x.as_bytes()), b)));
            out.push(("as_iri", optb(v.as_iri().map(|x| x.as_bytes()), b)));
            out.push(("as_iri_ref", okb(v.as_iri_ref().as_bytes(), b)));
            out.push(("try_from_uri", resb(<&Uri>::try_from(v).map(|x| x.as_bytes().to_vec()).map_err(|e| e.0.as_bytes().to_vec()), b)));
            out.push(("try_from_iri", resb(<&Iri>::try_from(v).map(|x| x.as_bytes().to_vec()).map_err(|e| e.0.as_bytes().to_vec()), b)));
            let r: &IriRef = v.into();
            out.push(("from_iri_ref", okb(r.as_bytes(), b)));
            let o = v.to_owned();
            out.push(("try_into_uri", resb(o.clone().try_into_uri().map(|x| x.as_bytes().to_vec()).map_err(|e| e.0.as_bytes().to_vec()), b)));
            out.push(("try_into_iri", resb(o.clone().try_into_iri().map(|x| x.as_bytes().to_vec()).map_err(|e| e.0.as_bytes().to_vec()), b)));
            out.push(("into_iri_ref", okb(o.clone().into_iri_ref().as_bytes(), b)));
            out.push(("tryfrom_buf_uri", resb(UriBuf::try_from(o.clone()).map(|x| x.as_bytes().to_vec()).map_err(|e| e.0.as_bytes().to_vec()), b)));
            out.push(("tryfrom_buf_iri", resb(IriBuf::try_from(o.clone()).map(|x| x.as_bytes().to_vec()).map_err(|e| e.0.as_bytes().to_vec()), b)));
            out.push(("from_buf_iri_ref", okb(IriRefBuf::from(o).as_bytes(), b)));
            let txt = std::str::from_utf8(b).ok();
            out.push(("iri_ref_accepts", if txt.map_or(false, |t| IriRef::new(t).is_ok()) { "ok" } else { "REJECTED" }));
        }
        "iri" => {
            let Ok(s) = std::str::from_utf8(b) else { return Some("invalid".into()) };
            let Ok(v) = Iri::new(s) else { return Some("invalid".into()) };
            out.push(("as_iri_ref", okb(v.as_iri_ref().as_bytes(), b)));
            out.push(("as_uri", optb(v.as_uri().map(|x| x.as_bytes()), b)));
            out.push(("as_uri_ref", optb(v.as_uri_ref().map(|x| x.as_bytes()), b)));
            out.push(("try_from_uri", resb(<&Uri>::try_from(v).map(|x| x.as_bytes().to_vec()).map_err(|e| e.0.as_bytes().to_vec()), b)));
            out.push(("try_from_uri_ref", resb(<&UriRef>::try_from(v).map(|x| x.as_bytes().to_vec()).map_err(|e| e.0.as_bytes().to_vec()), b)));
            let r: &IriRef = v.into();
            out.push(("from_iri_ref", okb(r.as_bytes(), b)));
            let o = v.to_owned();
            out.push(("into_iri_ref", okb(o.clone().into_iri_ref().as_bytes(), b)));
            out.push(("try_into_uri", resb(o.clone().try_into_uri().map(|x| x.as_bytes().to_vec()).map_err(|e| e.0.as_bytes().to_vec()), b)));
            out.push(("try_into_uri_ref", resb(o.clone().try_into_uri_ref().map(|x| x.as_bytes().to_vec()).map_err(|e| e.0.as_bytes().to_vec()), b)));
            out.push(("from_buf", okb(IriRefBuf::from(o).as_bytes(), b)));
        }
        "iriref" => {
            let Ok(s) = std::str::from_utf8(b) else { return Some("invalid".into()) };
            let Ok(v) = IriRef::new(s) else { return Some("invalid".into()) };
            // hidden state: the same allocation holding another text of the same length afterwards
            // must be judged on its own (a cache keyed on address and length would not)
            let stale = {
                let bytes = b.to_vec();
                let n = bytes.len();
                let mut bad = false;
                if n >= 2 && bytes[n - 2].is_ascii_alphanumeric() && bytes[n - 1].is_ascii_alphanumeric() {
                    if let Ok(o) = IriRefBuf::from_vec(bytes) {
                        let _ = (o.as_uri_ref().is_some(), o.as_uri().is_some(), o.as_iri().is_some());
                        let mut raw = o.into_bytes();
                        raw[n - 2] = 0xC3;
                        raw[n - 1] = 0xA9;
                        if let Ok(o2) = IriRefBuf::from_vec(raw) {
                            if o2.as_uri_ref().is_some() || o2.as_uri().is_some() { bad = true }
                        }
                    }
                }
                bad
            };
            out.push(("as_iri", optb(v.as_iri().map(|x| x.as_bytes()), b)));
            out.push(("as_uri", optb(v.as_uri().map(|x| x.as_bytes()), b)));
            out.push(("as_uri_ref", if stale { "STALE-STATE" } else { optb(v.as_uri_ref().map(|x| x.as_bytes()), b) }));
            out.push(("try_from_iri", resb(<&Iri>::try_from(v).map(|x| x.as_bytes().to_vec()).map_err(|e| e.0.as_bytes().to_vec()), b)));
            out.push(("try_from_uri", resb(<&Uri>::try_from(v).map(|x| x.as_bytes().to_vec()).map_err(|e| e.0.as_bytes().to_vec()), b)));
            out.push(("try_from_uri_ref", resb(<&UriRef>::try_from(v).map(|x| x.as_bytes().to_vec()).map_err(|e| e.0.as_bytes().to_vec()), b)));
            let o = v.to_owned();
            out.push(("try_into_iri", resb(o.clone().try_into_iri().map(|x| x.as_bytes().to_vec()).map_err(|e| e.0.as_bytes().to_vec()), b)));
            out.push(("try_into_uri", resb(o.clone().try_into_uri().map(|x| x.as_bytes().to_vec()).map_err(|e| e.0.as_bytes().to_vec()), b)));
            out.push(("try_into_uri_ref", resb(o.clone().try_into_uri_ref().map(|x| x.as_bytes().to_vec()).map_err(|e| e.0.as_bytes().to_vec()), b)));
            out.push(("tryfrom_buf_iri", resb(IriBuf::try_from(o.clone()).map(|x| x.as_bytes().to_vec()).map_err(|e| e.0.as_bytes().to_vec()), b)));
            out.push(("tryfrom_buf_uri", resb(UriBuf::try_from(o.clone()).map(|x| x.as_bytes().to_vec()).map_err(|e| e.0.as_bytes().to_vec()), b)));
            out.push(("tryfrom_buf_uri_ref", resb(UriRefBuf::try_from(o).map(|x| x.as_bytes().to_vec()).map_err(|e| e.0.as_bytes().to_vec()), b)));
        }
        _ => return None,
    }
    Some(out.iter().map(|(n, v)| format!("{}={}", n, v)).collect::<Vec<_>>().join(" "))
}

// ---------------------------------------------------------------------------
// textual routes out (C14)

macro_rules! routes_kind {
    ($B:ty, $O:ty, $new:expr, $b:expr) => {
        routes_kind!($B, $O, $new, $b, |v: &$B, s: &str, bad: &mut Vec<&str>| {
            if !(*v == s) { bad.push("eq_str") }
            let other = format!("{}x", s);
            if *v == other.as_str() { bad.push("eq_str_other") }
        })
    };
    ($B:ty, $O:ty, $new:expr, $b:expr, $eq:expr) => {{
        let b: &[u8] = $b;
        let Ok(s) = std::str::from_utf8(b) else { return Some("invalid".into()) };
        let Some(v): Option<&$B> = ($new)(b, s) else { return Some("invalid".into()) };
        let mut bad: Vec<&str> = Vec::new();
        if format!("{}", v) != s { bad.push("display") }
        if format!("{:?}", v) != format!("{:?}", s) { bad.push("debug") }
        // formatter flags are honoured the way `str` honours them (widths around the length in
        // characters and in bytes, precision, the three alignments, a fill character)
        {
            let nc = s.chars().count();
            let o2: $O = v.to_owned();
            for w in [nc + 1, s.len(), s.len() + 3, nc.saturating_sub(1)] {
                if format!("{:>w$}", v, w = w) != format!("{:>w$}", s, w = w) { bad.push("display_width") }
                if format!("{:*<w$}", v, w = w) != format!("{:*<w$}", s, w = w) { bad.push("display_fill") }
                if format!("{:^w$}", o2, w = w) != format!("{:^w$}", s, w = w) { bad.push("owned_display_width") }
                if format!("{:>w$}", o2, w = w) != format!("{:>w$}", s, w = w) { bad.push("owned_display_width") }
            }
            if format!("{:.3}", v) != format!("{:.3}", s) { bad.push("display_precision") }
            if format!("{:.3}", o2) != format!("{:.3}", s) { bad.push("owned_display_precision") }
            if format!("{:8.2}", o2) != format!("{:8.2}", s) { bad.push("owned_display_precision") }
        }
        if v.as_str() != s { bad.push("as_str") }
        if v.as_bytes() != b { bad.push("as_bytes") }
        let r: &str = v.as_ref();
        if r != s { bad.push("asref_str") }
        let r: &[u8] = v.as_ref();
        if r != b { bad.push("asref_bytes") }
        let o: $O = v.to_owned();
        if o.as_bytes() != b { bad.push("to_owned") }
        if format!("{}", o) != s { bad.push("owned_display") }
        if format!("{:?}", o) != format!("{:?}", s) { bad.push("owned_debug") }
        if o.clone().as_bytes() != b { bad.push("clone") }
        {
            // the second use of a buffer: `clone_from` over a value of another shape, both ways
            let mut x: $O = o.clone();
            let mut y: $O = o.clone();
            x.clone_from(&y);
            if x.as_bytes() != b { bad.push("clone_from_self") }
            y.clone_from(&x);
            if y.as_bytes() != b || y.as_bytes() != o.as_bytes() { bad.push("clone_from") }
        }
        if o.clone().into_string() != s { bad.push("into_string") }
        if String::from(o.clone()) != s { bad.push("from_string") }
        if serde_json::to_string(v).ok() != serde_json::to_string(s).ok() { bad.push("serde") }
        if serde_json::to_string(&o).ok() != serde_json::to_string(s).ok() { bad.push("owned_serde") }
        ($eq)(v, s, &mut bad);
        if bad.is_empty() { Some("1".to_string()) } else { Some(format!("ROUTES {}", bad.join(","))) }
    }};
}

/// the owned percent-string of the four component kinds that have one hands over the text as it is
fn routes_pct(kind: &str, b: &[u8]) -> Option<&'static str> {
    use iref::{iri, uri};
    let s = std::str::from_utf8(b).ok();
    let ok = match kind {
        "uriUserInfo" => uri::UserInfo::new(b).ok().map(|v| v.to_owned().into_pct_string().as_bytes() == b),
        "uriHost" => uri::Host::new(b).ok().map(|v| v.to_owned().into_pct_string().as_bytes() == b),
        "uriQuery" => uri::Query::new(b).ok().map(|v| v.to_owned().into_pct_string().as_bytes() == b),
        "uriFragment" => uri::Fragment::new(b).ok().map(|v| v.to_owned().into_pct_string().as_bytes() == b),
        "iriUserInfo" => s.and_then(|s| iri::UserInfo::new(s).ok()).map(|v| v.to_owned().into_pct_string().as_bytes() == b),
        "iriHost" => s.and_then(|s| iri::Host::new(s).ok()).map(|v| v.to_owned().into_pct_string().as_bytes() == b),
        "iriQuery" => s.and_then(|s| iri::Query::new(s).ok()).map(|v| v.to_owned().into_pct_string().as_bytes() == b),
        "iriFragment" => s.and_then(|s| iri::Fragment::new(s).ok()).map(|v| v.to_owned().into_pct_string().as_bytes() == b),
        _ => None,
    };
    if ok == Some(false) { Some("into_pct_string") } else { None }
}

pub fn routes(kind: &str, b: &[u8]) -> Option<String> {
    let r = routes_inner(kind, b);
    if r.as_deref() == Some("1") {
        if let Some(bad) = routes_pct(kind, b) {
            return Some(format!("ROUTES {}", bad));
        }
    }
    r
}

fn routes_inner(kind: &str, b: &[u8]) -> Option<String> {
    use iref::{iri, uri};
    match kind {
        "uri" => routes_kind!(Uri, UriBuf, |b: &'static [u8], _s| Uri::new(b).ok(), leak(b)),
        "uriRef" => routes_kind!(UriRef, UriRefBuf, |b: &'static [u8], _s| UriRef::new(b).ok(), leak(b)),
        "uriAuthority" => routes_kind!(uri::Authority, uri::AuthorityBuf, |b: &'static [u8], _s| uri::Authority::new(b).ok(), leak(b)),
        "uriUserInfo" => routes_kind!(uri::UserInfo, uri::UserInfoBuf, |b: &'static [u8], _s| uri::UserInfo::new(b).ok(), leak(b)),
        "iri" => routes_kind!(Iri, IriBuf, |_b, s: &'static str| Iri::new(s).ok(), leak(b)),
        "iriRef" => routes_kind!(IriRef, IriRefBuf, |_b, s: &'static str| IriRef::new(s).ok(), leak(b)),
        "iriAuthority" => routes_kind!(iri::Authority, iri::AuthorityBuf, |_b, s: &'static str| iri::Authority::new(s).ok(), leak(b)),
        "iriUserInfo" => routes_kind!(iri::UserInfo, iri::UserInfoBuf, |_b, s: &'static str| iri::UserInfo::new(s).ok(), leak(b)),
        "scheme" => routes_kind!(uri::Scheme, uri::SchemeBuf, |b: &'static [u8], _s| uri::Scheme::new(b).ok(), leak(b), |_v: &uri::Scheme, _s: &str, _bad: &mut Vec<&str>| {}),
        "port" => routes_kind!(uri::Port, uri::PortBuf, |b: &'static [u8], _s| uri::Port::new(b).ok(), leak(b), |_v: &uri::Port, _s: &str, _bad: &mut Vec<&str>| {}),
        "uriHost" => routes_kind!(uri::Host, uri::HostBuf, |b: &'static [u8], _s| uri::Host::new(b).ok(), leak(b)),
        "uriPath" => routes_kind!(uri::Path, uri::PathBuf, |b: &'static [u8], _s| uri::Path::new(b).ok(), leak(b)),
        "uriSegment" => routes_kind!(uri::Segment, uri::SegmentBuf, |b: &'static [u8], _s| uri::Segment::new(b).ok(), leak(b), |_v: &uri::Segment, _s: &str, _bad: &mut Vec<&str>| {}),
        "uriQuery" => routes_kind!(uri::Query, uri::QueryBuf, |b: &'static [u8], _s| uri::Query::new(b).ok(), leak(b)),
        "uriFragment" => routes_kind!(uri::Fragment, uri::FragmentBuf, |b: &'static [u8], _s| uri::Fragment::new(b).ok(), leak(b)),
        "iriHost" => routes_kind!(iri::Host, iri::HostBuf, |_b, s: &'static str| iri::Host::new(s).ok(), leak(b)),
        "iriPath" => routes_kind!(iri::Path, iri::PathBuf, |_b, s: &'static str| iri::Path::new(s).ok(), leak(b)),
        "iriSegment" => routes_kind!(iri::Segment, iri::SegmentBuf, |_b, s: &'static str| iri::Segment::new(s).ok(), leak(b), |_v: &iri::Segment, _s: &str, _bad: &mut Vec<&str>| {}),
        "iriQuery" => routes_kind!(iri::Query, iri::QueryBuf, |_b, s: &'static str| iri::Query::new(s).ok(), leak(b)),
        "iriFragment" => routes_kind!(iri::Fragment, iri::FragmentBuf, |_b, s: &'static str| iri::Fragment::new(s).ok(), leak(b)),
        _ => None,
    }
}

fn leak(b: &[u8]) -> &'static [u8] {
    Box::leak(b.to_vec().into_boxed_slice())
}

// ---------------------------------------------------------------------------
// views of one value as map keys (C08)

pub fn views(fam: &str, b: &[u8]) -> Option<String> {
    match fam {
        "u" => {
            let Ok(v) = Uri::new(b) else { return Some("invalid".into()) };
            let o = v.to_owned();
            let ts = [
                trace(v), trace(&o), trace(v.as_uri_ref()), trace(&v.as_uri_ref().to_owned()),
                trace(v.as_iri()), trace(&v.as_iri().to_owned()), trace(v.as_iri_ref()),
                trace(&v.as_iri_ref().to_owned()),
            ];
            // the trait routes to the same views (`Borrow` / `AsRef` of the borrowed and the owned type)
            let tr = [
                trace(std::borrow::Borrow::<UriRef>::borrow(v)), trace(std::borrow::Borrow::<Iri>::borrow(v)),
                trace(std::borrow::Borrow::<IriRef>::borrow(v)), trace(AsRef::<UriRef>::as_ref(v)),
                trace(AsRef::<Iri>::as_ref(v)), trace(AsRef::<IriRef>::as_ref(v)),
                trace(std::borrow::Borrow::<UriRef>::borrow(&o)), trace(std::borrow::Borrow::<Iri>::borrow(&o)),
                trace(std::borrow::Borrow::<IriRef>::borrow(&o)), trace(AsRef::<UriRef>::as_ref(&o)),
                trace(AsRef::<Iri>::as_ref(&o)), trace(AsRef::<IriRef>::as_ref(&o)),
                trace(AsRef::<IriRef>::as_ref(v.as_uri_ref())), trace(AsRef::<IriRef>::as_ref(&v.as_uri_ref().to_owned())),
            ];
            let same = ts.iter().all(|t| *t == ts[0]) && tr.iter().all(|t| *t == ts[0]);
            let mut hs: HashSet<UriBuf> = HashSet::new();
            hs.insert(o.clone());
            let mut bs: BTreeSet<UriBuf> = BTreeSet::new();
            bs.insert(o.clone());
            let l = [
                hs.contains(v), hs.contains(v.as_uri_ref()), hs.contains(v.as_iri()), hs.contains(v.as_iri_ref()),
                bs.contains(v), bs.contains(v.as_uri_ref()), bs.contains(v.as_iri()), bs.contains(v.as_iri_ref()),
            ];
            let mut hr: HashSet<UriRefBuf> = HashSet::new();
            hr.insert(o.clone().into_uri_ref());
            let l2 = hr.contains(v.as_uri_ref());
            let cross = *v == *v.as_uri_ref() && *v.as_uri_ref() == *v && v.partial_cmp(v.as_uri_ref()) == Some(std::cmp::Ordering::Equal);
            Some(format!("hash={} lookup={}{} cross={}", if same { "same" } else { "DIFF" },
                l.iter().map(|x| b01(*x)).collect::<String>(), b01(l2), b01(cross)))
        }
        "i" => {
            let Ok(s) = std::str::from_utf8(b) else { return Some("invalid".into()) };
            let Ok(v) = Iri::new(s) else { return Some("invalid".into()) };
            let o = v.to_owned();
            let ts = [trace(v), trace(&o), trace(v.as_iri_ref()), trace(&v.as_iri_ref().to_owned())];
            let tr = [
                trace(std::borrow::Borrow::<IriRef>::borrow(v)), trace(AsRef::<IriRef>::as_ref(v)),
                trace(std::borrow::Borrow::<IriRef>::borrow(&o)), trace(AsRef::<IriRef>::as_ref(&o)),
            ];
            let same = ts.iter().all(|t| *t == ts[0]) && tr.iter().all(|t| *t == ts[0]);
            let mut hs: HashSet<IriBuf> = HashSet::new();
            hs.insert(o.clone());
            let mut bs: BTreeSet<IriBuf> = BTreeSet::new();
            bs.insert(o.clone());
            let l = [hs.contains(v), hs.contains(v.as_iri_ref()), bs.contains(v), bs.contains(v.as_iri_ref())];
            let mut hr: HashSet<IriRefBuf> = HashSet::new();
            hr.insert(o.clone().into_iri_ref());
            let l2 = hr.contains(v.as_iri_ref());
            let cross = *v == *v.as_iri_ref() && *v.as_iri_ref() == *v && v.partial_cmp(v.as_iri_ref()) == Some(std::cmp::Ordering::Equal);
            Some(format!("hash={} lookup={}{} cross={}", if same { "same" } else { "DIFF" },
                l.iter().map(|x| b01(*x)).collect::<String>(), b01(l2), b01(cross)))
        }
        _ => None,
    }
}


// ---------------------------------------------------------------------------
// cross-type comparison impls (C07/C08) and comparison with plain text (C14)

fn ob(o: Option<std::cmp::Ordering>) -> i8 {
    match o {
        Some(std::cmp::Ordering::Less) => -1,
        Some(std::cmp::Ordering::Equal) => 0,
        Some(std::cmp::Ordering::Greater) => 1,
        None => 9,
    }
}

/// record `got` against the same-type result `want`
macro_rules! chk {
    ($bad:ident, $want:expr, $name:expr, $got:expr) => {
        if ($got) != ($want) {
            $bad.push($name);
        }
    };
}

/// `cross FAM x y`: every provided `==` / `partial_cmp` between the reference type, the full type
/// and their owned forms must agree with `Ref == Ref` / `Ref.cmp(Ref)` on the same two texts.
macro_rules! cross_fam {
    ($fname:ident, $Ri:ident, $RiBuf:ident, $Ref:ident, $RefBuf:ident, $conv:expr, $own:expr) => {
        fn $fname(x: &[u8], y: &[u8]) -> Option<String> {
            use std::borrow::Borrow;
            let (ix, iy) = (($conv)(x)?, ($conv)(y)?);
            let (Ok(rx), Ok(ry)) = (<$Ref>::new(ix), <$Ref>::new(iy)) else { return Some("invalid".into()) };
            let e = *rx == *ry;
            let c = ob(Some(rx.cmp(ry)));
            let mut bad: Vec<&'static str> = Vec::new();
            let (bx, by): ($RefBuf, $RefBuf) = (rx.to_owned(), ry.to_owned());
            chk!(bad, e, "Ref==&Ref", *rx == ry);
            chk!(bad, e, "Ref==RefBuf", *rx == by);
            chk!(bad, e, "RefBuf==RefBuf", bx == by);
            chk!(bad, e, "Ref!=Ref", !(*rx != *ry));
            chk!(bad, c, "Ref<>Ref", ob(rx.partial_cmp(ry)));
            chk!(bad, c, "Ref<>&Ref", ob((*rx).partial_cmp(&ry)));
            chk!(bad, c, "Ref<>RefBuf", ob((*rx).partial_cmp(&by)));
            chk!(bad, c, "RefBuf<>RefBuf", ob(bx.partial_cmp(&by)));
            chk!(bad, c, "RefBuf.cmp", ob(Some(bx.cmp(&by))));
            // the comparison operators (default methods of PartialOrd, but overridable) and the
            // std helpers built on Ord
            chk!(bad, c < 0, "Ref<", *rx < *ry);
            chk!(bad, c <= 0, "Ref<=", *rx <= *ry);
            chk!(bad, c > 0, "Ref>", *rx > *ry);
            chk!(bad, c >= 0, "Ref>=", *rx >= *ry);
            chk!(bad, c < 0, "RefBuf<", bx < by);
            chk!(bad, c <= 0, "RefBuf<=", bx <= by);
            chk!(bad, c > 0, "RefBuf>", bx > by);
            chk!(bad, c >= 0, "RefBuf>=", bx >= by);
            chk!(bad, !e, "RefBuf!=", bx != by);
            chk!(bad, true, "Ord::max/min", {
                let mx = std::cmp::max(rx, ry);
                let mn = std::cmp::min(rx, ry);
                (c >= 0 || mx.as_bytes() == ry.as_bytes()) && (c <= 0 || mn.as_bytes() == ry.as_bytes())
            });
            // Clone::clone_from / ToOwned::clone_into keep the text
            {
                let mut t = bx.clone();
                t.clone_from(&by);
                chk!(bad, true, "clone_from", t.as_bytes() == y);
                let mut u = bx.clone();
                ry.clone_into(&mut u);
                chk!(bad, true, "clone_into", u.as_bytes() == y);
            }
            // the full type on the right
            if let Ok(fy) = <$Ri>::new(iy) {
                let fyb: $RiBuf = fy.to_owned();
                chk!(bad, e, "Ref==Ri", *rx == *fy);
                chk!(bad, e, "Ref==&Ri", *rx == fy);
                chk!(bad, e, "Ref==RiBuf", *rx == fyb);
                chk!(bad, e, "RefBuf==Ri", bx == *fy);
                chk!(bad, e, "RefBuf==&Ri", bx == fy);
                chk!(bad, e, "RefBuf==RiBuf", bx == fyb);
                chk!(bad, c, "Ref<>Ri", ob((*rx).partial_cmp(fy)));
                chk!(bad, c, "Ref<>&Ri", ob((*rx).partial_cmp(&fy)));
                chk!(bad, c, "Ref<>RiBuf", ob((*rx).partial_cmp(&fyb)));
                chk!(bad, c, "RefBuf<>Ri", ob(bx.partial_cmp(fy)));
                chk!(bad, c, "RefBuf<>&Ri", ob(bx.partial_cmp(&fy)));
                chk!(bad, c, "RefBuf<>RiBuf", ob(bx.partial_cmp(&fyb)));
                let as_ref: &$Ref = fy.as_ref();
                let bor: &$Ref = fy.borrow();
                let borb: &$Ref = fyb.borrow();
                chk!(bad, true, "Ri.as_ref/borrow text", as_ref.as_bytes() == y && bor.as_bytes() == y && borb.as_bytes() == y);
            }
            // the full type on the left
            if let Ok(fx) = <$Ri>::new(ix) {
                let fxb: $RiBuf = fx.to_owned();
                chk!(bad, e, "Ri==Ref", *fx == *ry);
                chk!(bad, e, "Ri==&Ref", *fx == ry);
                chk!(bad, e, "Ri==RefBuf", *fx == by);
                chk!(bad, e, "RiBuf==Ref", fxb == *ry);
                chk!(bad, e, "RiBuf==&Ref", fxb == ry);
                chk!(bad, e, "RiBuf==RefBuf", fxb == by);
                chk!(bad, c, "Ri<>Ref", ob((*fx).partial_cmp(ry)));
                chk!(bad, c, "Ri<>&Ref", ob((*fx).partial_cmp(&ry)));
                chk!(bad, c, "Ri<>RefBuf", ob((*fx).partial_cmp(&by)));
                chk!(bad, c, "RiBuf<>Ref", ob(fxb.partial_cmp(ry)));
                chk!(bad, c, "RiBuf<>&Ref", ob(fxb.partial_cmp(&ry)));
                chk!(bad, c, "RiBuf<>RefBuf", ob(fxb.partial_cmp(&by)));
                if let Ok(fy) = <$Ri>::new(iy) {
                    let fyb: $RiBuf = fy.to_owned();
                    chk!(bad, e, "Ri==Ri", *fx == *fy);
                    chk!(bad, e, "Ri==&Ri", *fx == fy);
                    chk!(bad, e, "Ri==RiBuf", *fx == fyb);
                    chk!(bad, e, "RiBuf==RiBuf", fxb == fyb);
                    chk!(bad, c, "Ri<>Ri", ob((*fx).partial_cmp(fy)));
                    chk!(bad, c, "Ri<>&Ri", ob((*fx).partial_cmp(&fy)));
                    chk!(bad, c, "Ri<>RiBuf", ob((*fx).partial_cmp(&fyb)));
                    chk!(bad, c, "RiBuf<>RiBuf", ob(fxb.partial_cmp(&fyb)));
                    chk!(bad, c, "Ri.cmp", ob(Some(fx.cmp(fy))));
                }
            }
            // components: partial_cmp agrees with cmp, reverse iteration of the normalised segments
            let (px, py) = (rx.path(), ry.path());
            chk!(bad, ob(Some(px.cmp(py))), "Path<>Path", ob(px.partial_cmp(py)));
            let fw: Vec<Vec<u8>> = px.normalized_segments().map(|s| AsRef::<[u8]>::as_ref(s).to_vec()).collect();
            let mut bw: Vec<Vec<u8>> = px.normalized_segments().rev().map(|s| AsRef::<[u8]>::as_ref(s).to_vec()).collect();
            bw.reverse();
            chk!(bad, true, "normalized_segments.rev", fw == bw);
            if let (Some(ax), Some(ay)) = (rx.authority(), ry.authority()) {
                chk!(bad, ob(Some(ax.cmp(ay))), "Authority<>", ob(ax.partial_cmp(ay)));
                chk!(bad, ob(Some(ax.host().cmp(ay.host()))), "Host<>", ob(ax.host().partial_cmp(ay.host())));
                if let (Some(ux), Some(uy)) = (ax.user_info(), ay.user_info()) {
                    chk!(bad, ob(Some(ux.cmp(uy))), "UserInfo<>", ob(ux.partial_cmp(uy)));
                }
            }
            if let (Some(qx), Some(qy)) = (rx.query(), ry.query()) {
                chk!(bad, ob(Some(qx.cmp(qy))), "Query<>", ob(qx.partial_cmp(qy)));
            }
            if let (Some(gx), Some(gy)) = (rx.fragment(), ry.fragment()) {
                chk!(bad, ob(Some(gx.cmp(gy))), "Fragment<>", ob(gx.partial_cmp(gy)));
            }
            if let (Some(sx), Some(sy)) = (px.first(), py.first()) {
                chk!(bad, ob(Some(sx.cmp(sy))), "Segment<>", ob(sx.partial_cmp(sy)));
            }
            let _ = $own;
            Some(format!("eq={} cmp={} cross={}", b01(e), c, if bad.is_empty() { "ok".to_string() } else { format!("BAD:{}", bad.join(",")) }))
        }
    };
}
cross_fam!(cross_u, Uri, UriBuf, UriRef, UriRefBuf, conv_u, 0);
cross_fam!(cross_i, Iri, IriBuf, IriRef, IriRefBuf, conv_i, 0);

/// comparisons of a value with plain text: `value == text` must be `value's text == text`
macro_rules! str_cmp {
    ($bad:ident, $v:expr, $s:expr, $want:expr) => {{
        let s: &str = $s;
        chk!($bad, $want, "==str", *$v == *s);
        chk!($bad, $want, "==&str", *$v == s);
        chk!($bad, $want, "==String", *$v == s.to_string());
    }};
}
macro_rules! refstr_cmp {
    ($bad:ident, $v:expr, $s:expr, $want:expr) => {{
        let s: &str = $s;
        chk!($bad, $want, "==&str", *$v == s);
    }};
}
macro_rules! bytes_cmp {
    ($bad:ident, $v:expr, $t:expr, $want:expr) => {{
        let t: &[u8] = $t;
        chk!($bad, $want, "==[u8]", *$v == *t);
        chk!($bad, $want, "==&[u8]", *$v == t);
        macro_rules! arr {
            ($n:literal) => {
                if let Ok(a) = <&[u8; $n]>::try_from(t) {
                    chk!($bad, $want, "==[u8;N]", *$v == *a);
                    chk!($bad, $want, "==&[u8;N]", *$v == a);
                }
            };
        }
        arr!(0); arr!(1); arr!(2); arr!(3); arr!(4); arr!(5); arr!(6); arr!(7); arr!(8);
    }};
}

/// `streq KIND value other`: every provided comparison of the value with plain text / bytes
pub fn streq(kind: &str, v: &[u8], t: &[u8]) -> Option<String> {
    use iref::{iri, uri};
    let want = v == t;
    let mut bad: Vec<&'static str> = Vec::new();
    let ts = std::str::from_utf8(t).ok();
    let vs = std::str::from_utf8(v).ok();
    macro_rules! ubytes {
        ($B:ty, $O:ty) => {{
            let Ok(x) = <$B>::new(v) else { return Some("invalid".into()) };
            let o: $O = x.to_owned();
            bytes_cmp!(bad, x, t, want);
            bytes_cmp!(bad, &o, t, want);
            if let Some(s) = ts {
                str_cmp!(bad, x, s, want);
                str_cmp!(bad, &o, s, want);
            }
        }};
    }
    macro_rules! istr {
        ($B:ty, $O:ty) => {{
            let Some(Ok(x)) = vs.map(<$B>::new) else { return Some("invalid".into()) };
            let o: $O = x.to_owned();
            if let Some(s) = ts {
                str_cmp!(bad, x, s, want);
                str_cmp!(bad, &o, s, want);
            }
        }};
    }
    macro_rules! ucomp {
        ($B:ty) => {{
            let Ok(x) = <$B>::new(v) else { return Some("invalid".into()) };
            if let Some(s) = ts {
                refstr_cmp!(bad, x, s, want);
            }
        }};
    }
    macro_rules! icomp {
        ($B:ty) => {{
            let Some(Ok(x)) = vs.map(<$B>::new) else { return Some("invalid".into()) };
            if let Some(s) = ts {
                refstr_cmp!(bad, x, s, want);
            }
        }};
    }
    match kind {
        "uri" => ubytes!(Uri, UriBuf),
        "uriRef" => ubytes!(UriRef, UriRefBuf),
        "uriPath" => {
            let Ok(x) = uri::Path::new(v) else { return Some("invalid".into()) };
            bytes_cmp!(bad, x, t, want);
            if let Some(s) = ts {
                str_cmp!(bad, x, s, want);
            }
        }
        "iri" => istr!(Iri, IriBuf),
        "iriRef" => istr!(IriRef, IriRefBuf),
        "iriPath" => istr!(iri::Path, iri::PathBuf),
        "uriAuthority" => ucomp!(uri::Authority),
        "uriUserInfo" => ucomp!(uri::UserInfo),
        "uriHost" => ucomp!(uri::Host),
        "uriQuery" => ucomp!(uri::Query),
        "uriFragment" => ucomp!(uri::Fragment),
        "iriAuthority" => icomp!(iri::Authority),
        "iriUserInfo" => icomp!(iri::UserInfo),
        "iriHost" => icomp!(iri::Host),
        "iriQuery" => icomp!(iri::Query),
        "iriFragment" => icomp!(iri::Fragment),
        _ => return None,
    }
    Some(if bad.is_empty() { "ok".to_string() } else { format!("BAD:{}", bad.join(",")) })
}

// ---------------------------------------------------------------------------
// data URLs (C18)

pub fn dataurl(b: &[u8]) -> Option<String> {
    use iref::uri::data::{DataUrl, DataUrlBuf};
    let br = DataUrl::new(b);
    let ow = DataUrlBuf::new(b.to_vec());
    // every other route in and out must agree with the two constructors
    {
        use serde::de::value::{BorrowedStrDeserializer, Error as DeError, StringDeserializer};
        use serde::Deserialize;
        use std::borrow::Borrow;
        use std::convert::TryFrom;
        use std::str::FromStr;
        let acc = br.is_ok();
        let mut bad: Vec<&'static str> = Vec::new();
        if let Ok(s) = std::str::from_utf8(b) {
            let t = |r: Option<&[u8]>| match r { Some(x) => x == b, None => false };
            // the views of a value do not depend on the route that built it
            let views = |o: &DataUrlBuf| {
                let p = o.parts();
                format!("{:?} {} {} | {:?} {} {} | {:?}", o.media_type(), o.is_base_64_encoded(), o.encoded_data(),
                    p.media_type, p.base_64, p.data, o.decoded_data().ok())
            };
            if let Ok(o0) = &ow {
                let want = views(o0);
                let same = |r: Option<DataUrlBuf>| r.map_or(true, |o| views(&o) == want);
                chk!(bad, true, "views(from_string)", same(DataUrlBuf::from_string(s.to_string()).ok()));
                chk!(bad, true, "views(TryFrom<String>)", same(DataUrlBuf::try_from(s.to_string()).ok()));
                chk!(bad, true, "views(FromStr)", same(DataUrlBuf::from_str(s).ok()));
                chk!(bad, true, "views(parse)", same(s.parse::<DataUrlBuf>().ok()));
                chk!(bad, true, "views(de_string)", same(DataUrlBuf::deserialize(StringDeserializer::<DeError>::new(s.to_string())).ok()));
                let js = serde_json::to_string(s).unwrap();
                chk!(bad, true, "views(json_owned)", same(serde_json::from_str::<DataUrlBuf>(&js).ok()));
                chk!(bad, true, "views(clone)", same(Some(o0.clone())));
                // the second use of a buffer: `clone_from` over values of other layouts, both ways
                for other in ["data:,", "data:text/plain,hi", "data:;base64,aGVsbG8=", "data:a/b;x=1;base64,QQ==", "data:application/octet-stream,"] {
                    let ot = DataUrlBuf::new(other.as_bytes().to_vec()).ok();
                    if let Some(ot) = ot {
                        let mut x = ot.clone();
                        x.clone_from(o0);
                        chk!(bad, true, "views(clone_from)", views(&x) == want && x.as_str() == o0.as_str());
                        let mut y = o0.clone();
                        y.clone_from(&ot);
                        chk!(bad, true, "views(clone_from back)", views(&y) == views(&ot) && y.as_str() == other);
                    }
                }
            }
            chk!(bad, acc, "from_string", t(DataUrlBuf::from_string(s.to_string()).ok().as_ref().map(|v| v.as_str().as_bytes())));
            chk!(bad, acc, "TryFrom<String>", t(DataUrlBuf::try_from(s.to_string()).ok().as_ref().map(|v| v.as_str().as_bytes())));
            chk!(bad, acc, "FromStr", t(DataUrlBuf::from_str(s).ok().as_ref().map(|v| v.as_str().as_bytes())));
            chk!(bad, acc, "TryFrom<&str>", t(<&DataUrl>::try_from(s).ok().map(|v| v.as_str().as_bytes())));
            chk!(bad, acc, "de_borrowed_str", t(<&DataUrl>::deserialize(BorrowedStrDeserializer::<DeError>::new(s)).ok().map(|v| v.as_str().as_bytes())));
            chk!(bad, acc, "de_string", t(DataUrlBuf::deserialize(StringDeserializer::<DeError>::new(s.to_string())).ok().as_ref().map(|v| v.as_str().as_bytes())));
            let js = serde_json::to_string(s).unwrap();
            chk!(bad, acc, "json_owned", t(serde_json::from_str::<DataUrlBuf>(&js).ok().as_ref().map(|v| v.as_str().as_bytes())));
        }
        if let (Ok(v), Ok(o)) = (&br, &ow) {
            let js = serde_json::to_string(std::str::from_utf8(b).unwrap()).unwrap();
            chk!(bad, true, "serialize", serde_json::to_string(*v).ok() == Some(js.clone()) && serde_json::to_string(o).ok() == Some(js));
            let u1: &Uri = (*v).as_ref();
            let u2: &Uri = o.as_ref();
            let d1: &DataUrl = (*v).as_ref();
            let d2: &DataUrl = o.as_ref();
            let d3: &DataUrl = o.borrow();
            let u3: &Uri = &**v;
            chk!(bad, true, "as_ref/borrow/deref/as_uri", u1.as_bytes() == b && u2.as_bytes() == b && d1.as_str().as_bytes() == b
                && d2.as_str().as_bytes() == b && d3.as_str().as_bytes() == b && u3.as_bytes() == b && v.as_uri().as_bytes() == b
                && o.as_data_url().as_str().as_bytes() == b);
        }
        if !bad.is_empty() {
            return Some(format!("ROUTES-DIFF {}", bad.join(",")));
        }
    }
    match (br, ow) {
        (Err(_), Err(e)) => Some(if e.0 == b { "0".into() } else { "ERRCHANGED".into() }),
        (Ok(_), Err(_)) => Some("ACCEPT-DIFF borrowed-only".into()),
        (Err(_), Ok(_)) => Some("ACCEPT-DIFF owned-only".into()),
        (Ok(v), Ok(o)) => {
            let fmt = |mt: Option<&str>, b64: bool, data: &str| {
                format!("{} {} {}", ohex(mt.map(|s| s.as_bytes())), b01(b64), hex(data.as_bytes()))
            };
            let a1 = fmt(v.media_type(), v.is_base_64_encoded(), v.encoded_data());
            let p = v.parts();
            let a2 = fmt(p.media_type, p.base_64, p.data);
            let a3 = fmt(o.media_type(), o.is_base_64_encoded(), o.encoded_data());
            let p = o.parts();
            let a4 = fmt(p.media_type, p.base_64, p.data);
            let dec = |r: Result<std::borrow::Cow<[u8]>, _>| match r {
                Ok(d) => hex(&d),
                Err::<_, base64::DecodeError>(_) => "b64err".to_string(),
            };
            let d1 = dec(v.decoded_data());
            let d2 = dec(o.decoded_data());
            let text = v.as_str().as_bytes() == b && o.as_str().as_bytes() == b;
            if a1 == a2 && a1 == a3 && a1 == a4 && d1 == d2 && text {
                Some(format!("{} {}", a1, d1))
            } else {
                Some(format!("VIEWS-DIFF {} | {} | {} | {} | {} | {} | {}", a1, a2, a3, a4, d1, d2, b01(text)))
            }
        }
    }
}

/// C20 for the borrowed data-URL type: `DataUrl::new` and its re-scanning accessors allocate
/// nothing and hand out sub-slices of the input (`decoded_data` is not a borrowed view)
pub fn ptrdata(b: &[u8]) -> Option<String> {
    use iref::uri::data::DataUrl;
    ALLOCS.store(0, AO::Relaxed);
    COUNTING.store(true, AO::Relaxed);
    let got = match DataUrl::new(b) {
        Ok(v) => {
            let p = v.parts();
            Some((v.as_str().as_bytes(), v.media_type().map(|x| x.as_bytes()), v.is_base_64_encoded(), v.encoded_data().as_bytes(),
                  p.media_type.map(|x| x.as_bytes()), p.base_64, p.data.as_bytes(), v.as_uri().as_bytes()))
        }
        Err(_) => None,
    };
    COUNTING.store(false, AO::Relaxed);
    let allocs = ALLOCS.load(AO::Relaxed);
    match got {
        None => Some("invalid".to_string()),
        Some((whole, mt, _, data, pmt, _, pdata, uri)) => Some(format!(
            "whole={} media_type={} data={} parts_media_type={} parts_data={} uri={} allocs={}",
            loc(b, whole), oloc(b, mt), loc(b, data), oloc(b, pmt), loc(b, pdata), loc(b, uri), allocs
        )),
    }
}

// ---------------------------------------------------------------------------
// percent-decoded views (C19)

fn guarded<F: FnOnce() -> String>(f: F) -> String {
    match catch_unwind(AssertUnwindSafe(f)) {
        Ok(s) => s,
        Err(_) => "PANIC".to_string(),
    }
}

macro_rules! pct_kind {
    ($T:ty, $inp:expr, $b:expr, $own:expr) => {{
        let Ok(v) = <$T>::new($inp) else { return Some("invalid".into()) };
        let p = v.as_pct_str();
        let bytes = guarded(|| hex(&p.bytes().collect::<Vec<u8>>()));
        let chars = guarded(|| p.chars().map(|c| format!("{:x}", c as u32)).collect::<Vec<_>>().join("."));
        let len = guarded(|| p.len().to_string());
        let dec = guarded(|| hex(p.decode().as_bytes()));
        let eqd = guarded(|| {
            let d = p.decode();
            b01(*p == *d.as_str()).to_string()
        });
        // `Deref` must hand out the same view as `as_pct_str`
        let d: &pct_str::PctStr = &**v;
        let deref_same = d.as_bytes() == p.as_bytes() && std::ptr::eq(d.as_bytes().as_ptr(), p.as_bytes().as_ptr());
        let text = p.as_bytes() == $b && ($own)(v) && deref_same;
        Some(format!("bytes={} chars=[{}] len={} decode={} eqdecoded={} text={}", bytes, chars, len, dec, eqd, b01(text)))
    }};
}

pub fn pct(fam: &str, kind: &str, b: &[u8]) -> Option<String> {
    use iref::{iri, uri};
    match fam {
        "u" => match kind {
            "segment" => pct_kind!(uri::Segment, b, b, |_v: &uri::Segment| true),
            "userinfo" => pct_kind!(uri::UserInfo, b, b, |v: &uri::UserInfo| v.to_owned().into_pct_string().as_bytes() == b),
            "host" => pct_kind!(uri::Host, b, b, |v: &uri::Host| v.to_owned().into_pct_string().as_bytes() == b),
            "query" => pct_kind!(uri::Query, b, b, |v: &uri::Query| v.to_owned().into_pct_string().as_bytes() == b),
            "fragment" => pct_kind!(uri::Fragment, b, b, |v: &uri::Fragment| v.to_owned().into_pct_string().as_bytes() == b),
            _ => None,
        },
        "i" => {
            let Ok(s) = std::str::from_utf8(b) else { return Some("invalid".into()) };
            match kind {
                "segment" => pct_kind!(iri::Segment, s, b, |_v: &iri::Segment| true),
                "userinfo" => pct_kind!(iri::UserInfo, s, b, |v: &iri::UserInfo| v.to_owned().into_pct_string().as_bytes() == b),
                "host" => pct_kind!(iri::Host, s, b, |v: &iri::Host| v.to_owned().into_pct_string().as_bytes() == b),
                "query" => pct_kind!(iri::Query, s, b, |v: &iri::Query| v.to_owned().into_pct_string().as_bytes() == b),
                "fragment" => pct_kind!(iri::Fragment, s, b, |v: &iri::Fragment| v.to_owned().into_pct_string().as_bytes() == b),
                _ => None,
            }
        }
        _ => None,
    }
}

/// `pctref FAM x..`: the octet view of every percent-encoded component of a whole reference,
/// reached the way a caller reaches them (parts, authority parts, segment iteration).
macro_rules! pctref_fam {
    ($fname:ident, $Ref:ty, $conv:expr) => {
        fn $fname(b: &[u8]) -> Option<String> {
            let inp = ($conv)(b)?;
            let Ok(v) = <$Ref>::new(inp) else { return Some("invalid".into()) };
            let oct = |p: &pct_str::PctStr| guarded(|| hex(&p.bytes().collect::<Vec<u8>>()));
            let p = v.parts();
            let ap = p.authority.map(|a| a.parts());
            let ui = match ap.as_ref().and_then(|a| a.user_info) { Some(u) => oct(u.as_pct_str()), None => "-".into() };
            let host = match ap.as_ref() { Some(a) => oct(a.host.as_pct_str()), None => "-".into() };
            let segs: Vec<String> = p.path.segments().map(|s| oct(s.as_pct_str())).collect();
            let rsegs: Vec<String> = p.path.segments().rev().map(|s| oct(s.as_pct_str())).collect();
            let q = match p.query { Some(q) => oct(q.as_pct_str()), None => "-".into() };
            let f = match p.fragment { Some(f) => oct(f.as_pct_str()), None => "-".into() };
            let mut rr = rsegs.clone();
            rr.reverse();
            // the same components through the stand-alone accessors (each scans the text again) and
            // through first() / last() / file_name()
            let mut same = true;
            let q2 = match v.query() { Some(q) => oct(q.as_pct_str()), None => "-".into() };
            let f2 = match v.fragment() { Some(f) => oct(f.as_pct_str()), None => "-".into() };
            same &= q2 == q && f2 == f;
            let a2 = v.authority();
            let ui2 = match a2.and_then(|a| a.user_info()) { Some(u) => oct(u.as_pct_str()), None => "-".into() };
            let host2 = match a2 { Some(a) => oct(a.host().as_pct_str()), None => "-".into() };
            same &= ui2 == ui && host2 == host;
            let segs2: Vec<String> = v.path().segments().map(|s| oct(s.as_pct_str())).collect();
            same &= segs2 == segs;
            same &= v.path().first().map(|s| oct(s.as_pct_str())) == segs.first().cloned();
            same &= v.path().last().map(|s| oct(s.as_pct_str())) == segs.last().cloned();
            if let Some(n) = v.path().file_name() {
                same &= Some(oct(n.as_pct_str())) == segs.last().cloned();
            }
            Some(format!("ui={} host={} segs=[{}] rev={} query={} fragment={}", ui, host, segs.join(","), b01(rr == segs && same), q, f))
        }
    };
}
pctref_fam!(pctref_u, iref::UriRef, conv_u);
pctref_fam!(pctref_i, iref::IriRef, conv_i);

// ---------------------------------------------------------------------------
// pointer provenance and allocation counting (C20)

fn loc(base: &[u8], s: &[u8]) -> String {
    let b0 = base.as_ptr() as usize;
    let p = s.as_ptr() as usize;
    if p >= b0 && p + s.len() <= b0 + base.len() {
        format!("{}+{}", p - b0, s.len())
    } else {
        format!("const:{}", hex(s))
    }
}

fn oloc(base: &[u8], s: Option<&[u8]>) -> String {
    match s {
        Some(s) => loc(base, s),
        None => "-".into(),
    }
}

macro_rules! ptr_fam {
    ($fname:ident, $Ri:ident, $Ref:ident, $md:ident, $conv:expr) => {
        fn $fname(full: bool, b: &[u8]) -> Option<String> {
            use iref::$md::{Authority, Path};
            let inp = ($conv)(b)?;
            // everything below runs with the allocation counter on
            let mut acc: Option<(Option<&[u8]>, Option<&[u8]>, &[u8], Option<&[u8]>, Option<&[u8]>)> = None;
            ALLOCS.store(0, AO::Relaxed);
            COUNTING.store(true, AO::Relaxed);
            let parsed: Option<(Option<&[u8]>, Option<&Authority>, &Path, Option<&[u8]>, Option<&[u8]>, &[u8], &[u8])> = if full {
                match $Ri::new(inp) {
                    Ok(v) => {
                        let p = v.parts();
                        // the stand-alone accessors scan the text again, each on its own
                        acc = Some((Some(v.scheme().as_bytes()), v.authority().map(|x| x.as_bytes()),
                                    v.path().as_bytes(), v.query().map(|x| x.as_bytes()),
                                    v.fragment().map(|x| x.as_bytes())));
                        Some((Some(p.scheme.as_bytes()), p.authority, p.path, p.query.map(|x| x.as_bytes()),
                              p.fragment.map(|x| x.as_bytes()), v.as_bytes(), v.base().as_bytes()))
                    }
                    Err(_) => None,
                }
            } else {
                match $Ref::new(inp) {
                    Ok(v) => {
                        let p = v.parts();
                        acc = Some((v.scheme().map(|x| x.as_bytes()), v.authority().map(|x| x.as_bytes()),
                                    v.path().as_bytes(), v.query().map(|x| x.as_bytes()),
                                    v.fragment().map(|x| x.as_bytes())));
                        Some((p.scheme.map(|x| x.as_bytes()), p.authority, p.path, p.query.map(|x| x.as_bytes()),
                              p.fragment.map(|x| x.as_bytes()), v.as_bytes(), v.base().as_bytes()))
                    }
                    Err(_) => None,
                }
            };
            let Some((s, a, p, q, f, whole, base)) = parsed else {
                COUNTING.store(false, AO::Relaxed);
                return Some("invalid".into());
            };
            let ap = a.map(|a| a.parts());
            let ui = ap.as_ref().and_then(|x| x.user_info.map(|u| AsRef::<[u8]>::as_ref(u)));
            let host = ap.as_ref().map(|x| AsRef::<[u8]>::as_ref(x.host));
            let port = ap.as_ref().and_then(|x| x.port.map(|u| u.as_bytes()));
            // the stand-alone authority accessors re-scan the authority
            let aui = a.and_then(|x| x.user_info().map(|u| AsRef::<[u8]>::as_ref(u)));
            let ahost = a.map(|x| AsRef::<[u8]>::as_ref(x.host()));
            let aport = a.and_then(|x| x.port().map(|u| u.as_bytes()));
            let first = p.first().map(|x| AsRef::<[u8]>::as_ref(x));
            let last = p.last().map(|x| AsRef::<[u8]>::as_ref(x));
            let fname = p.file_name().map(|x| AsRef::<[u8]>::as_ref(x));
            let dir = p.directory().as_bytes();
            let par = p.parent().map(|x| x.as_bytes());
            let poe = p.parent_or_empty().as_bytes();
            let mut nseg = 0usize;
            let mut seg_inside = true;
            let b0 = b.as_ptr() as usize;
            for sg in p.segments() {
                nseg += 1;
                let sb: &[u8] = sg.as_ref();
                let pp = sb.as_ptr() as usize;
                if !(pp >= b0 && pp + sb.len() <= b0 + b.len()) {
                    seg_inside = false;
                }
            }
            for sg in p.segments().rev() {
                let sb: &[u8] = sg.as_ref();
                let pp = sb.as_ptr() as usize;
                if !(pp >= b0 && pp + sb.len() <= b0 + b.len()) {
                    seg_inside = false;
                }
            }
            COUNTING.store(false, AO::Relaxed);
            let allocs = ALLOCS.load(AO::Relaxed);
            let acc = match acc {
                Some((s, a, p, q, f)) => format!(
                    "ascheme={} aauthority={} apath={} aquery={} afragment={} auserinfo={} ahost={} aport={}",
                    oloc(b, s), oloc(b, a), loc(b, p), oloc(b, q), oloc(b, f), oloc(b, aui), oloc(b, ahost), oloc(b, aport)),
                None => String::new(),
            };
            Some(format!(
                "whole={} scheme={} authority={} path={} query={} fragment={} userinfo={} host={} port={} first={} last={} fn={} dir={} par={} poe={} base={} nseg={} segs_inside={} allocs={} {}",
                loc(b, whole), oloc(b, s), oloc(b, a.map(|x| x.as_bytes())), loc(b, p.as_bytes()), oloc(b, q), oloc(b, f),
                oloc(b, ui), oloc(b, host), oloc(b, port), oloc(b, first), oloc(b, last), oloc(b, fname),
                loc(b, dir), oloc(b, par), loc(b, poe), loc(b, base), nseg, b01(seg_inside), allocs, acc
            ))
        }
    };
}

fn conv_u(b: &[u8]) -> Option<&[u8]> {
    Some(b)
}
fn conv_i(b: &[u8]) -> Option<&str> {
    std::str::from_utf8(b).ok()
}

ptr_fam!(ptr_u, Uri, UriRef, uri, conv_u);
ptr_fam!(ptr_i, Iri, IriRef, iri, conv_i);

pub fn dispatch(t: &[&str]) -> Option<String> {
    match *t.first()? {
        "convert" => convert(t.get(1)?, &unhex(t.get(2)?)?),
        "routes" => routes(t.get(1)?, &unhex(t.get(2)?)?),
        "views" => views(t.get(1)?, &unhex(t.get(2)?)?),
        "cross" => match *t.get(1)? {
            "u" => {
                // the URI view and the IRI view of the same two values must compare and order
                // alike (`Borrow<Iri>` for `UriBuf`, `BTreeSet<UriBuf>` looked up through `Iri`)
                let (x, y) = (unhex(t.get(2)?)?, unhex(t.get(3)?)?);
                let ru = cross_u(&x, &y)?;
                match cross_i(&x, &y) {
                    Some(ri) if ru != "invalid" && ri != "invalid" => {
                        let (pu, pi): (Vec<&str>, Vec<&str>) = (ru.split(' ').collect(), ri.split(' ').collect());
                        if pu.len() == 3 && pi.len() == 3 && (pu[0] != pi[0] || pu[1] != pi[1]) && pu[2] == "cross=ok" {
                            Some(format!("{} {} cross=BAD:uri-vs-iri({},{})", pu[0], pu[1], pi[0], pi[1]))
                        } else {
                            Some(ru)
                        }
                    }
                    _ => Some(ru),
                }
            }
            "i" => cross_i(&unhex(t.get(2)?)?, &unhex(t.get(3)?)?),
            _ => None,
        },
        "streq" => streq(t.get(1)?, &unhex(t.get(2)?)?, &unhex(t.get(3)?)?),
        "dataurl" => dataurl(&unhex(t.get(1)?)?),
        "ptrdata" => ptrdata(&unhex(t.get(1)?)?),
        "pct" => pct(t.get(1)?, t.get(2)?, &unhex(t.get(3)?)?),
        "pctref" => match *t.get(1)? {
            "u" => pctref_u(&unhex(t.get(2)?)?),
            "i" => pctref_i(&unhex(t.get(2)?)?),
            _ => None,
        },
        "ptrbig" => {
            // inputs far larger than any inline buffer: only the summary is printed (the Lean
            // model is list-based and is not asked to re-derive megabyte-sized offsets)
            let full = match *t.get(2)? {
                "full" => true,
                "ref" => false,
                _ => return None,
            };
            let b = unhex(t.get(3)?)?;
            let r = match *t.get(1)? {
                "u" => ptr_u(full, &b),
                "i" => ptr_i(full, &b),
                _ => return None,
            }?;
            let keep: Vec<&str> = r
                .split(' ')
                .filter(|kv| kv.starts_with("whole=") || kv.starts_with("segs_inside=") || kv.starts_with("allocs="))
                .collect();
            Some(format!("len={} {}", b.len(), keep.join(" ")))
        }
        "ptr" => {
            let full = match *t.get(2)? {
                "full" => true,
                "ref" => false,
                _ => return None,
            };
            let b = unhex(t.get(3)?)?;
            let r = match *t.get(1)? {
                "u" => ptr_u(full, &b),
                "i" => ptr_i(full, &b),
                _ => return None,
            };
            Some(r.unwrap_or_else(|| "invalid".into()))
        }
        _ => None,
    }
}
