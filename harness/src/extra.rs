//! Further operations (conversions, textual routes, data URLs, percent-decoding,
//! pointer provenance and allocation counting).

pub fn dispatch(_t: &[&str]) -> Option<String> {
    None
}
