//! `ctor KIND x..` — every construction route of one validated type (C01, C14 routes in).
//!
//! Result: `1` when every applicable route accepts and keeps the text byte-for-byte,
//! `0` when every applicable route rejects and (where the error carries it) hands the
//! input back untouched, otherwise `ROUTES <per-route verdicts>`.

use serde::de::value::{
    BorrowedBytesDeserializer, BorrowedStrDeserializer, BytesDeserializer, Error as DeError,
    StrDeserializer, StringDeserializer,
};
use serde::Deserialize;
use std::convert::TryFrom;
use std::str::FromStr;

#[derive(PartialEq, Eq, Debug)]
enum R {
    /// accepted, text identical to the input
    Ok,
    /// accepted but text differs
    OkChanged,
    /// rejected, payload identical to the input (or the route carries no payload)
    Err,
    /// rejected, payload differs from the input
    ErrChanged,
}

fn ok(text: &[u8], input: &[u8]) -> R {
    if text == input {
        R::Ok
    } else {
        R::OkChanged
    }
}
fn er(payload: &[u8], input: &[u8]) -> R {
    if payload == input {
        R::Err
    } else {
        R::ErrChanged
    }
}

fn summarize(rs: Vec<(&'static str, R)>) -> String {
    if rs.is_empty() {
        return "0".into();
    }
    if rs.iter().all(|(_, r)| *r == R::Ok) {
        return "1".into();
    }
    if rs.iter().all(|(_, r)| *r == R::Err) {
        return "0".into();
    }
    let mut s = String::from("ROUTES");
    for (n, r) in rs {
        s.push_str(&format!(" {}={:?}", n, r));
    }
    s
}

macro_rules! byte_kind {
    ($B:ty, $O:ty, $b:expr) => {{
        let b: &[u8] = $b;
        let mut rs: Vec<(&'static str, R)> = Vec::new();
        rs.push(("new", match <$B>::new(b) { Ok(v) => ok(v.as_bytes(), b), Err(e) => er(e.0, b) }));
        rs.push(("owned_new", match <$O>::new(b.to_vec()) { Ok(v) => ok(v.as_bytes(), b), Err(e) => er(&e.0, b) }));
        rs.push(("try_from_bytes", match <&$B>::try_from(b) { Ok(v) => ok(v.as_bytes(), b), Err(e) => er(e.0, b) }));
        rs.push(("try_from_vec", match <$O>::try_from(b.to_vec()) { Ok(v) => ok(v.as_bytes(), b), Err(e) => er(&e.0, b) }));
        rs.push(("de_borrowed_bytes", match <&$B>::deserialize(BorrowedBytesDeserializer::<DeError>::new(b)) { Ok(v) => ok(v.as_bytes(), b), Err(_) => R::Err }));
        rs.push(("de_bytes", match <$O>::deserialize(BytesDeserializer::<DeError>::new(b)) { Ok(v) => ok(v.as_bytes(), b), Err(_) => R::Err }));
        if let Ok(s) = std::str::from_utf8(b) {
            rs.push(("try_from_str", match <&$B>::try_from(s) { Ok(v) => ok(v.as_bytes(), b), Err(e) => er(e.0.as_bytes(), b) }));
            rs.push(("try_from_string", match <$O>::try_from(s.to_string()) { Ok(v) => ok(v.as_bytes(), b), Err(e) => er(e.0.as_bytes(), b) }));
            rs.push(("from_str", match <$O>::from_str(s) { Ok(v) => ok(v.as_bytes(), b), Err(e) => er(e.0.as_bytes(), b) }));
            rs.push(("de_borrowed_str", match <&$B>::deserialize(BorrowedStrDeserializer::<DeError>::new(s)) { Ok(v) => ok(v.as_bytes(), b), Err(_) => R::Err }));
            rs.push(("de_str", match <$O>::deserialize(StrDeserializer::<DeError>::new(s)) { Ok(v) => ok(v.as_bytes(), b), Err(_) => R::Err }));
            rs.push(("de_string", match <$O>::deserialize(StringDeserializer::<DeError>::new(s.to_string())) { Ok(v) => ok(v.as_bytes(), b), Err(_) => R::Err }));
            let js = serde_json::to_string(s).unwrap();
            rs.push(("json_owned", match serde_json::from_str::<$O>(&js) { Ok(v) => ok(v.as_bytes(), b), Err(_) => R::Err }));
            // borrowed JSON deserialization only works for strings without escapes
            if js.len() == s.len() + 2 {
                rs.push(("json_borrowed", match serde_json::from_str::<&$B>(&js) { Ok(v) => ok(v.as_bytes(), b), Err(_) => R::Err }));
            }
        }
        rs
    }};
}

macro_rules! char_kind {
    ($B:ty, $O:ty, $b:expr, $from_vec:expr) => {{
        let b: &[u8] = $b;
        let mut rs: Vec<(&'static str, R)> = Vec::new();
        rs.push(("de_borrowed_bytes", match <&$B>::deserialize(BorrowedBytesDeserializer::<DeError>::new(b)) { Ok(v) => ok(v.as_bytes(), b), Err(_) => R::Err }));
        rs.push(("de_bytes", match <$O>::deserialize(BytesDeserializer::<DeError>::new(b)) { Ok(v) => ok(v.as_bytes(), b), Err(_) => R::Err }));
        if let Some(r) = ($from_vec)(b) {
            rs.push(("from_vec", r));
        }
        if let Ok(s) = std::str::from_utf8(b) {
            rs.push(("new", match <$B>::new(s) { Ok(v) => ok(v.as_bytes(), b), Err(e) => er(e.0.as_bytes(), b) }));
            rs.push(("owned_new", match <$O>::new(s.to_string()) { Ok(v) => ok(v.as_bytes(), b), Err(e) => er(e.0.as_bytes(), b) }));
            rs.push(("try_from_str", match <&$B>::try_from(s) { Ok(v) => ok(v.as_bytes(), b), Err(e) => er(e.0.as_bytes(), b) }));
            rs.push(("try_from_string", match <$O>::try_from(s.to_string()) { Ok(v) => ok(v.as_bytes(), b), Err(e) => er(e.0.as_bytes(), b) }));
            rs.push(("from_str", match <$O>::from_str(s) { Ok(v) => ok(v.as_bytes(), b), Err(e) => er(e.0.as_bytes(), b) }));
            rs.push(("de_borrowed_str", match <&$B>::deserialize(BorrowedStrDeserializer::<DeError>::new(s)) { Ok(v) => ok(v.as_bytes(), b), Err(_) => R::Err }));
            rs.push(("de_str", match <$O>::deserialize(StrDeserializer::<DeError>::new(s)) { Ok(v) => ok(v.as_bytes(), b), Err(_) => R::Err }));
            rs.push(("de_string", match <$O>::deserialize(StringDeserializer::<DeError>::new(s.to_string())) { Ok(v) => ok(v.as_bytes(), b), Err(_) => R::Err }));
            let js = serde_json::to_string(s).unwrap();
            rs.push(("json_owned", match serde_json::from_str::<$O>(&js) { Ok(v) => ok(v.as_bytes(), b), Err(_) => R::Err }));
            if js.len() == s.len() + 2 {
                rs.push(("json_borrowed", match serde_json::from_str::<&$B>(&js) { Ok(v) => ok(v.as_bytes(), b), Err(_) => R::Err }));
            }
        }
        rs
    }};
}

fn no_from_vec(_: &[u8]) -> Option<R> {
    None
}

/// Conversions from the sibling types are routes in as well (C13/C14): whenever the input can be
/// held as a value of a sibling type, converting that value must accept exactly what the
/// validating constructor of the target accepts, keep the text, and hand the original back on
/// failure.
fn sibling_routes(kind: &str, b: &[u8], rs: &mut Vec<(&'static str, R)>) {
    use iref::{Iri, IriBuf, IriRef, IriRefBuf, Uri, UriBuf, UriRef, UriRefBuf};
    let s = std::str::from_utf8(b).ok();
    match kind {
        "uri" => {
            // built from a scheme
            if b.last() == Some(&b':') {
                if let Ok(sc) = iref::uri::SchemeBuf::new(b[..b.len() - 1].to_vec()) {
                    rs.push(("from_scheme", ok(UriBuf::from_scheme(sc).as_bytes(), b)));
                }
            }
            if let Ok(r) = UriRef::new(b) {
                rs.push(("tf_uriref", match <&Uri>::try_from(r) { Ok(v) => ok(v.as_bytes(), b), Err(e) => er(e.0.as_bytes(), b) }));
                rs.push(("as_uri", match r.as_uri() { Some(v) => ok(v.as_bytes(), b), None => R::Err }));
                let rb = UriRefBuf::new(b.to_vec()).unwrap();
                rs.push(("tf_urirefbuf", match UriBuf::try_from(rb.clone()) { Ok(v) => ok(v.as_bytes(), b), Err(e) => er(e.0.as_bytes(), b) }));
                rs.push(("try_into_uri", match rb.try_into_uri() { Ok(v) => ok(v.as_bytes(), b), Err(e) => er(e.0.as_bytes(), b) }));
            }
            if let Some(Ok(r)) = s.map(IriRef::new) {
                rs.push(("tf_iriref", match <&Uri>::try_from(r) { Ok(v) => ok(v.as_bytes(), b), Err(e) => er(e.0.as_bytes(), b) }));
                let rb = IriRefBuf::new(s.unwrap().to_string()).unwrap();
                rs.push(("tf_irirefbuf", match UriBuf::try_from(rb) { Ok(v) => ok(v.as_bytes(), b), Err(e) => er(e.0.as_bytes(), b) }));
            }
            if let Some(Ok(r)) = s.map(Iri::new) {
                rs.push(("tf_iri", match <&Uri>::try_from(r) { Ok(v) => ok(v.as_bytes(), b), Err(e) => er(e.0.as_bytes(), b) }));
                let rb = IriBuf::new(s.unwrap().to_string()).unwrap();
                rs.push(("tf_iribuf", match UriBuf::try_from(rb) { Ok(v) => ok(v.as_bytes(), b), Err(e) => er(e.0.as_bytes(), b) }));
            }
        }
        "uriRef" => {
            if let Some(Ok(r)) = s.map(IriRef::new) {
                rs.push(("tf_iriref", match <&UriRef>::try_from(r) { Ok(v) => ok(v.as_bytes(), b), Err(e) => er(e.0.as_bytes(), b) }));
                let rb = IriRefBuf::new(s.unwrap().to_string()).unwrap();
                rs.push(("tf_irirefbuf", match UriRefBuf::try_from(rb) { Ok(v) => ok(v.as_bytes(), b), Err(e) => er(e.0.as_bytes(), b) }));
            }
            if let Ok(r) = Uri::new(b) {
                rs.push(("from_uri", ok(r.as_uri_ref().as_bytes(), b)));
                let ar: &UriRef = r.as_ref();
                rs.push(("asref_uri", ok(ar.as_bytes(), b)));
                rs.push(("from_uribuf", ok(UriRefBuf::from(r.to_owned()).as_bytes(), b)));
            }
            if let Some(Ok(r)) = s.map(Iri::new) {
                rs.push(("tf_iri", match <&UriRef>::try_from(r) { Ok(v) => ok(v.as_bytes(), b), Err(e) => er(e.0.as_bytes(), b) }));
                let rb = IriBuf::new(s.unwrap().to_string()).unwrap();
                rs.push(("tf_iribuf", match UriRefBuf::try_from(rb.clone()) { Ok(v) => ok(v.as_bytes(), b), Err(e) => er(e.0.as_bytes(), b) }));
                rs.push(("try_into_uri_ref", match rb.try_into_uri_ref() { Ok(v) => ok(v.as_bytes(), b), Err(e) => er(e.0.as_bytes(), b) }));
            }
        }
        "iri" => {
            if b.last() == Some(&b':') {
                if let Ok(sc) = iref::uri::SchemeBuf::new(b[..b.len() - 1].to_vec()) {
                    rs.push(("from_scheme", ok(IriBuf::from_scheme(sc).as_bytes(), b)));
                }
            }
            if let Some(Ok(r)) = s.map(IriRef::new) {
                rs.push(("tf_iriref", match <&Iri>::try_from(r) { Ok(v) => ok(v.as_bytes(), b), Err(e) => er(e.0.as_bytes(), b) }));
                rs.push(("as_iri", match r.as_iri() { Some(v) => ok(v.as_bytes(), b), None => R::Err }));
                let rb = IriRefBuf::new(s.unwrap().to_string()).unwrap();
                rs.push(("tf_irirefbuf", match IriBuf::try_from(rb.clone()) { Ok(v) => ok(v.as_bytes(), b), Err(e) => er(e.0.as_bytes(), b) }));
                rs.push(("try_into_iri", match rb.try_into_iri() { Ok(v) => ok(v.as_bytes(), b), Err(e) => er(e.0.as_bytes(), b) }));
            }
            if let Ok(r) = UriRef::new(b) {
                rs.push(("tf_uriref", match <&Iri>::try_from(r) { Ok(v) => ok(v.as_bytes(), b), Err(e) => er(e.0.as_bytes(), b) }));
                let rb = UriRefBuf::new(b.to_vec()).unwrap();
                rs.push(("tf_urirefbuf", match IriBuf::try_from(rb) { Ok(v) => ok(v.as_bytes(), b), Err(e) => er(e.0.as_bytes(), b) }));
            }
            if let Ok(r) = Uri::new(b) {
                rs.push(("from_uri", ok(r.as_iri().as_bytes(), b)));
            }
        }
        "iriRef" => {
            if let Ok(r) = UriRef::new(b) {
                rs.push(("from_uriref", ok(r.as_iri_ref().as_bytes(), b)));
                let ar: &IriRef = r.as_ref();
                rs.push(("asref_uriref", ok(ar.as_bytes(), b)));
                let ab: IriRefBuf = UriRefBuf::new(b.to_vec()).unwrap().into();
                rs.push(("from_urirefbuf", ok(ab.as_bytes(), b)));
                let rb = UriRefBuf::new(b.to_vec()).unwrap();
                let ar2: &IriRef = rb.as_ref();
                rs.push(("asref_urirefbuf", ok(ar2.as_bytes(), b)));
            }
            if let Some(Ok(r)) = s.map(Iri::new) {
                rs.push(("from_iri", ok(r.as_iri_ref().as_bytes(), b)));
                let ar: &IriRef = r.as_ref();
                rs.push(("asref_iri", ok(ar.as_bytes(), b)));
                rs.push(("from_iribuf", ok(IriRefBuf::from(r.to_owned()).as_bytes(), b)));
            }
            if let Ok(r) = Uri::new(b) {
                let ar: &IriRef = r.as_ref();
                rs.push(("asref_uri", ok(ar.as_bytes(), b)));
                let ai: &Iri = r.as_ref();
                rs.push(("asref_uri_iri", ok(ai.as_bytes(), b)));
                let ob = r.to_owned();
                let ar2: &IriRef = ob.as_ref();
                let ai2: &Iri = ob.as_ref();
                rs.push(("asref_uribuf", ok(ar2.as_bytes(), b)));
                rs.push(("asref_uribuf_iri", ok(ai2.as_bytes(), b)));
            }
        }
        _ => {}
    }
}

pub fn ctor(kind: &str, b: &[u8]) -> Option<String> {
    let mut rs = ctor_routes(kind, b)?;
    sibling_routes(kind, b, &mut rs);
    Some(summarize(rs))
}

fn ctor_routes(kind: &str, b: &[u8]) -> Option<Vec<(&'static str, R)>> {
    use iref::{iri, uri};
    Some(match kind {
        "uri" => byte_kind!(iref::Uri, iref::UriBuf, b),
        "uriRef" => byte_kind!(iref::UriRef, iref::UriRefBuf, b),
        "scheme" => byte_kind!(uri::Scheme, uri::SchemeBuf, b),
        "uriAuthority" => byte_kind!(uri::Authority, uri::AuthorityBuf, b),
        "uriUserInfo" => byte_kind!(uri::UserInfo, uri::UserInfoBuf, b),
        "uriHost" => byte_kind!(uri::Host, uri::HostBuf, b),
        "port" => byte_kind!(uri::Port, uri::PortBuf, b),
        "uriPath" => byte_kind!(uri::Path, uri::PathBuf, b),
        "uriSegment" => byte_kind!(uri::Segment, uri::SegmentBuf, b),
        "uriQuery" => byte_kind!(uri::Query, uri::QueryBuf, b),
        "uriFragment" => byte_kind!(uri::Fragment, uri::FragmentBuf, b),
        "iri" => char_kind!(iref::Iri, iref::IriBuf, b, |b: &[u8]| Some(
            match iref::IriBuf::from_vec(b.to_vec()) { Ok(v) => ok(v.as_bytes(), b), Err(e) => er(&e.0, b) }
        )),
        "iriRef" => char_kind!(iref::IriRef, iref::IriRefBuf, b, |b: &[u8]| Some(
            match iref::IriRefBuf::from_vec(b.to_vec()) { Ok(v) => ok(v.as_bytes(), b), Err(e) => er(&e.0, b) }
        )),
        "iriAuthority" => char_kind!(iri::Authority, iri::AuthorityBuf, b, no_from_vec),
        "iriUserInfo" => char_kind!(iri::UserInfo, iri::UserInfoBuf, b, no_from_vec),
        "iriHost" => char_kind!(iri::Host, iri::HostBuf, b, no_from_vec),
        "iriPath" => char_kind!(iri::Path, iri::PathBuf, b, no_from_vec),
        "iriSegment" => char_kind!(iri::Segment, iri::SegmentBuf, b, no_from_vec),
        "iriQuery" => char_kind!(iri::Query, iri::QueryBuf, b, no_from_vec),
        "iriFragment" => char_kind!(iri::Fragment, iri::FragmentBuf, b, no_from_vec),
        _ => return None,
    })
}
