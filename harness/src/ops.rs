//! Operation dispatch.  Every function returns the canonical result line for one
//! operation, or `None` when the line is not a well-formed request.

use crate::{hex, ohex, unhex, unohex};
use std::cmp::Ordering;
use std::hash::{Hash, Hasher};

pub fn ord(o: Ordering) -> &'static str {
    match o {
        Ordering::Less => "<",
        Ordering::Equal => "=",
        Ordering::Greater => ">",
    }
}

pub fn b01(b: bool) -> &'static str {
    if b {
        "1"
    } else {
        "0"
    }
}

/// A `Hasher` that records the sequence of `write_*` calls instead of mixing them.
#[derive(Default)]
pub struct TraceHasher(pub String);

impl Hasher for TraceHasher {
    fn finish(&self) -> u64 {
        0
    }
    fn write(&mut self, bytes: &[u8]) {
        self.0.push_str("b");
        for b in bytes {
            self.0.push_str(&format!("{:02x}", b));
        }
        self.0.push(',');
    }
    fn write_u8(&mut self, i: u8) {
        self.0.push_str(&format!("u8:{},", i));
    }
    fn write_u32(&mut self, i: u32) {
        self.0.push_str(&format!("u32:{},", i));
    }
    fn write_u64(&mut self, i: u64) {
        self.0.push_str(&format!("u64:{},", i));
    }
    fn write_usize(&mut self, i: usize) {
        self.0.push_str(&format!("us:{},", i));
    }
    fn write_isize(&mut self, i: isize) {
        self.0.push_str(&format!("is:{},", i));
    }
    fn write_u16(&mut self, i: u16) {
        self.0.push_str(&format!("u16:{},", i));
    }
    fn write_i32(&mut self, i: i32) {
        self.0.push_str(&format!("i32:{},", i));
    }
    fn write_i64(&mut self, i: i64) {
        self.0.push_str(&format!("i64:{},", i));
    }
}

pub fn trace<T: Hash + ?Sized>(t: &T) -> String {
    let mut h = TraceHasher::default();
    t.hash(&mut h);
    if h.0.is_empty() {
        "e".to_string()
    } else {
        h.0
    }
}

macro_rules! family {
    ($m:ident, $md:ident, $In:ty, $Own:ty, $Ri:ident, $RiBuf:ident, $Ref:ident, $RefBuf:ident,
     $conv:expr, $own:expr, $ownvec:expr) => {
        pub mod $m {
            use super::*;
            #[allow(unused_imports)]
            use iref::$md::{
                Authority, AuthorityBuf, Fragment, FragmentBuf, Host, HostBuf, Path, PathBuf, Query,
                QueryBuf, Segment, SegmentBuf, UserInfo, UserInfoBuf,
            };
            use iref::uri::{Port, Scheme};
            use iref::{$Ref, $RefBuf, $Ri, $RiBuf};

            pub fn conv(b: &[u8]) -> Option<&$In> {
                ($conv)(b)
            }
            pub fn own(b: &$In) -> $Own {
                ($own)(b)
            }
            #[allow(dead_code)]
            pub fn ownvec(b: Vec<u8>) -> Option<$Own> {
                ($ownvec)(b)
            }

            fn bytes_of<T: AsRef<[u8]> + ?Sized>(t: &T) -> &[u8] {
                t.as_ref()
            }

            // ---------------- parts (C02) ----------------

            fn five(
                s: Option<&Scheme>,
                a: Option<&Authority>,
                p: &Path,
                q: Option<&Query>,
                f: Option<&Fragment>,
            ) -> String {
                format!(
                    "{} {} {} {} {}",
                    ohex(s.map(|x| x.as_bytes())),
                    ohex(a.map(|x| x.as_bytes())),
                    hex(p.as_bytes()),
                    ohex(q.map(|x| x.as_bytes())),
                    ohex(f.map(|x| x.as_bytes()))
                )
            }

            /// `parts ref|full x..` : all-at-once decomposition, then the individual accessors,
            /// through the borrowed and the owned view (printed once when they agree).
            pub fn parts(full: bool, b: &[u8]) -> String {
                let Some(inp) = conv(b) else { return "invalid".into() };
                if full {
                    let Ok(v) = $Ri::new(inp) else { return "invalid".into() };
                    let p = v.parts();
                    let all = five(Some(p.scheme), p.authority, p.path, p.query, p.fragment);
                    let ind = five(Some(v.scheme()), v.authority(), v.path(), v.query(), v.fragment());
                    let o = v.to_owned();
                    let po = o.parts();
                    let allo = five(Some(po.scheme), po.authority, po.path, po.query, po.fragment);
                    let indo = five(Some(o.scheme()), o.authority(), o.path(), o.query(), o.fragment());
                    if all == allo && ind == indo {
                        format!("{} | {}", all, ind)
                    } else {
                        format!("OWNED-DIFFERS {} | {} || {} | {}", all, ind, allo, indo)
                    }
                } else {
                    let Ok(v) = $Ref::new(inp) else { return "invalid".into() };
                    let p = v.parts();
                    let all = five(p.scheme, p.authority, p.path, p.query, p.fragment);
                    let ind = five(v.scheme(), v.authority(), v.path(), v.query(), v.fragment());
                    let o = v.to_owned();
                    let po = o.parts();
                    let allo = five(po.scheme, po.authority, po.path, po.query, po.fragment);
                    let indo = five(o.scheme(), o.authority(), o.path(), o.query(), o.fragment());
                    if all == allo && ind == indo {
                        format!("{} | {}", all, ind)
                    } else {
                        format!("OWNED-DIFFERS {} | {} || {} | {}", all, ind, allo, indo)
                    }
                }
            }

            // ---------------- authority (C03) ----------------

            fn three(u: Option<&UserInfo>, h: &Host, p: Option<&Port>) -> String {
                format!(
                    "{} {} {}",
                    ohex(u.map(|x| bytes_of(x))),
                    hex(bytes_of(h)),
                    ohex(p.map(|x| x.as_bytes()))
                )
            }

            pub fn auth(b: &[u8]) -> String {
                let Some(inp) = conv(b) else { return "invalid".into() };
                let Ok(a) = Authority::new(inp) else { return "invalid".into() };
                let p = a.parts();
                format!(
                    "{} | {}",
                    three(p.user_info, p.host, p.port),
                    three(a.user_info(), a.host(), a.port())
                )
            }

            // ---------------- histories (C04, C05, C09, C10, C11) ----------------

            fn seg(t: &str) -> Option<Result<&'static Segment, ()>> {
                let b = unhex(t)?;
                let b: &'static [u8] = Box::leak(b.into_boxed_slice());
                match conv(b) {
                    None => Some(Err(())),
                    Some(i) => Some(Segment::new(i).map_err(|_| ())),
                }
            }

            /// one path-handle sub-operation; returns false when an argument is invalid
            fn path_op(pm: &mut iref::$md::PathMut, op: &str) -> Option<bool> {
                if op == "pop" {
                    pm.pop();
                } else if op == "clear" {
                    pm.clear();
                } else if op == "norm" {
                    pm.normalize();
                } else if let Some(t) = op.strip_prefix("push:") {
                    match seg(t)? {
                        Ok(s) => pm.push(s),
                        Err(()) => return Some(false),
                    }
                } else if let Some(t) = op.strip_prefix("spush:") {
                    match seg(t)? {
                        Ok(s) => pm.symbolic_push(s),
                        Err(()) => return Some(false),
                    }
                } else if let Some(t) = op.strip_prefix("sapp:") {
                    let b = unhex(t)?;
                    let Some(i) = conv(&b) else { return Some(false) };
                    let Ok(p) = Path::new(i) else { return Some(false) };
                    pm.symbolic_append(p.segments());
                } else {
                    return None;
                }
                Some(true)
            }

            fn path_group(mut pm: iref::$md::PathMut, body: &str, out: &mut String) -> Option<bool> {
                out.push_str("pm(");
                let mut first = true;
                for op in body.split(';') {
                    if op.is_empty() {
                        continue;
                    }
                    if !path_op(&mut pm, op)? {
                        out.push_str("invalid");
                        return Some(false);
                    }
                    if !first {
                        out.push(',');
                    }
                    first = false;
                    out.push_str(&hex(pm.as_bytes()));
                }
                Some(true)
            }

            fn auth_group(mut am: iref::$md::AuthorityMut, body: &str, out: &mut String) -> Option<bool> {
                out.push_str("am(");
                let mut first = true;
                for op in body.split(';') {
                    if op.is_empty() {
                        continue;
                    }
                    if let Some(t) = op.strip_prefix("ui:") {
                        match unohex(t)? {
                            None => am.set_userinfo(None),
                            Some(b) => {
                                let Some(i) = conv(&b) else { out.push_str("invalid"); return Some(false) };
                                let Ok(u) = UserInfo::new(i) else { out.push_str("invalid"); return Some(false) };
                                am.set_userinfo(Some(u))
                            }
                        }
                    } else if let Some(t) = op.strip_prefix("host:") {
                        let b = unhex(t)?;
                        let Some(i) = conv(&b) else { out.push_str("invalid"); return Some(false) };
                        let Ok(h) = Host::new(i) else { out.push_str("invalid"); return Some(false) };
                        am.set_host(h)
                    } else if let Some(t) = op.strip_prefix("port:") {
                        match unohex(t)? {
                            None => am.set_port(None),
                            Some(b) => {
                                let Ok(p) = Port::new(&b) else { out.push_str("invalid"); return Some(false) };
                                am.set_port(Some(p))
                            }
                        }
                    } else {
                        return None;
                    }
                    if !first {
                        out.push(',');
                    }
                    first = false;
                    out.push_str(&hex(bytes_of(am.as_authority())));
                }
                // `Deref` shows the same authority; giving the handle up returns it
                {
                    let d: &Authority = &*am;
                    if bytes_of(d) != bytes_of(am.as_authority()) {
                        out.push_str("!BAD:deref");
                    }
                }
                let shown = bytes_of(am.as_authority()).to_vec();
                let fin = am.into_authority();
                if bytes_of(fin) != &shown[..] {
                    out.push_str("!BAD:into_authority");
                }
                Some(true)
            }

            macro_rules! ref_hist {
                ($fname:ident, $Buf:ident, $full:tt) => {
                    pub fn $fname(b: &[u8], ops: &[&str]) -> Option<String> {
                        let Some(o) = ownvec(b.to_vec()) else { return Some("invalid".into()) };
                        let Ok(mut v) = $Buf::new(o) else { return Some("invalid".into()) };
                        let mut out = String::new();
                        for (k, op) in ops.iter().enumerate() {
                            if k > 0 {
                                out.push(' ');
                            }
                            if let Some(t) = op.strip_prefix("ss:") {
                                match unohex(t)? {
                                    None => {
                                        if $full {
                                            out.push_str("invalid");
                                            return Some(out);
                                        }
                                        ref_hist!(@unset_scheme v, $full);
                                    }
                                    Some(sb) => {
                                        let Ok(s) = Scheme::new(&sb) else { out.push_str("invalid"); return Some(out) };
                                        ref_hist!(@set_scheme v, s, $full);
                                    }
                                }
                            } else if let Some(t) = op.strip_prefix("sa:") {
                                match unohex(t)? {
                                    None => v.set_authority(None),
                                    Some(ab) => {
                                        let Some(i) = conv(&ab) else { out.push_str("invalid"); return Some(out) };
                                        let Ok(a) = Authority::new(i) else { out.push_str("invalid"); return Some(out) };
                                        v.set_authority(Some(a))
                                    }
                                }
                            } else if let Some(t) = op.strip_prefix("sp:") {
                                let pb = unhex(t)?;
                                let Some(i) = conv(&pb) else { out.push_str("invalid"); return Some(out) };
                                let Ok(p) = Path::new(i) else { out.push_str("invalid"); return Some(out) };
                                v.set_path(p)
                            } else if let Some(t) = op.strip_prefix("sq:") {
                                match unohex(t)? {
                                    None => v.set_query(None),
                                    Some(qb) => {
                                        let Some(i) = conv(&qb) else { out.push_str("invalid"); return Some(out) };
                                        let Ok(q) = Query::new(i) else { out.push_str("invalid"); return Some(out) };
                                        v.set_query(Some(q))
                                    }
                                }
                            } else if let Some(t) = op.strip_prefix("sf:") {
                                match unohex(t)? {
                                    None => v.set_fragment(None),
                                    Some(fb) => {
                                        let Some(i) = conv(&fb) else { out.push_str("invalid"); return Some(out) };
                                        let Ok(f) = Fragment::new(i) else { out.push_str("invalid"); return Some(out) };
                                        v.set_fragment(Some(f))
                                    }
                                }
                            } else if let Some(t) = op.strip_prefix("pm[") {
                                let body = t.strip_suffix(']')?;
                                let ok = path_group(v.path_mut(), body, &mut out)?;
                                if !ok {
                                    return Some(out);
                                }
                                out.push(';');
                                out.push_str(&hex(v.as_bytes()));
                                out.push(')');
                                continue;
                            } else if let Some(t) = op.strip_prefix("am[") {
                                let body = t.strip_suffix(']')?;
                                match v.authority_mut() {
                                    None => {
                                        out.push_str("noauth");
                                        continue;
                                    }
                                    Some(am) => {
                                        let ok = auth_group(am, body, &mut out)?;
                                        if !ok {
                                            return Some(out);
                                        }
                                    }
                                }
                                out.push(';');
                                out.push_str(&hex(v.as_bytes()));
                                out.push(')');
                                continue;
                            } else if let Some(t) = op.strip_prefix("res:") {
                                let bb = unhex(t)?;
                                let Some(i) = conv(&bb) else { out.push_str("invalid"); return Some(out) };
                                let Ok(base) = $Ri::new(i) else { out.push_str("invalid"); return Some(out) };
                                ref_hist!(@resolve v, base, $full, out);
                            } else {
                                return None;
                            }
                            out.push_str(&hex(v.as_bytes()));
                        }
                        Some(out)
                    }
                };
                (@unset_scheme $v:ident, false) => { $v.set_scheme(None) };
                (@unset_scheme $v:ident, true) => { unreachable!() };
                (@set_scheme $v:ident, $s:ident, false) => { $v.set_scheme(Some($s)) };
                (@set_scheme $v:ident, $s:ident, true) => { $v.set_scheme($s) };
                (@resolve $v:ident, $base:ident, false, $out:ident) => { $v.resolve($base) };
                (@resolve $v:ident, $base:ident, true, $out:ident) => {{ let _ = $base; $out.push_str("invalid"); return Some($out); }};
            }

            ref_hist!(hist_ref, $RefBuf, false);
            ref_hist!(hist_full, $RiBuf, true);

            /// histories on a stand-alone `PathBuf`: each top-level op goes through the
            /// `PathBuf` method (a fresh handle); `pm[..]` keeps one handle.
            pub fn hist_path(b: &[u8], ops: &[&str]) -> Option<String> {
                let Some(o) = ownvec(b.to_vec()) else { return Some("invalid".into()) };
                let Ok(mut v) = PathBuf::new(o) else { return Some("invalid".into()) };
                let mut out = String::new();
                for (k, op) in ops.iter().enumerate() {
                    if k > 0 {
                        out.push(' ');
                    }
                    if let Some(t) = op.strip_prefix("pm[") {
                        let body = t.strip_suffix(']')?;
                        let ok = path_group(v.as_path_mut(), body, &mut out)?;
                        if !ok {
                            return Some(out);
                        }
                        out.push(';');
                        out.push_str(&hex(v.as_bytes()));
                        out.push(')');
                        continue;
                    } else if *op == "pop" {
                        v.pop();
                    } else if *op == "clear" {
                        v.clear();
                    } else if *op == "norm" {
                        v.normalize();
                    } else if let Some(t) = op.strip_prefix("push:") {
                        match seg(t)? {
                            Ok(s) => v.push(s),
                            Err(()) => { out.push_str("invalid"); return Some(out) }
                        }
                    } else if let Some(t) = op.strip_prefix("spush:") {
                        match seg(t)? {
                            Ok(s) => v.symbolic_push(s),
                            Err(()) => { out.push_str("invalid"); return Some(out) }
                        }
                    } else if let Some(t) = op.strip_prefix("sapp:") {
                        let pb = unhex(t)?;
                        let Some(i) = conv(&pb) else { out.push_str("invalid"); return Some(out) };
                        let Ok(p) = Path::new(i) else { out.push_str("invalid"); return Some(out) };
                        v.symbolic_append(p.segments());
                    } else {
                        return None;
                    }
                    out.push_str(&hex(v.as_bytes()));
                }
                Some(out)
            }

            // ---------------- resolution (C06) ----------------

            pub fn resolve(base: &[u8], r: &[u8]) -> String {
                let (Some(bi), Some(ri)) = (conv(base), conv(r)) else { return "invalid".into() };
                let Ok(base) = $Ri::new(bi) else { return "invalid".into() };
                let Ok(rf) = $Ref::new(ri) else { return "invalid".into() };
                let before = base.as_bytes().to_vec();
                let a = rf.resolved(base);
                let b = rf.to_owned().into_resolved(base);
                let mut c = rf.to_owned();
                c.resolve(base);
                let ok = a.as_bytes() == b.as_bytes() && a.as_bytes() == c.as_bytes();
                if base.as_bytes() != &before[..] {
                    return "BASE-CHANGED".into();
                }
                if ok {
                    hex(a.as_bytes())
                } else {
                    format!("DIFF {} {} {}", hex(a.as_bytes()), hex(b.as_bytes()), hex(c.as_bytes()))
                }
            }

            // ---------------- relativisation (C15) ----------------

            /// `relto a b`: result of `a.relative_to(b)` on full values, then the round trip
            pub fn relto(a: &[u8], b: &[u8]) -> String {
                let (Some(ai), Some(bi)) = (conv(a), conv(b)) else { return "invalid".into() };
                let Ok(a) = $Ri::new(ai) else { return "invalid".into() };
                let Ok(b) = $Ri::new(bi) else { return "invalid".into() };
                let r = a.relative_to(b);
                let back = r.resolved(b);
                let eq = back == *a;
                format!("{} {} {}", hex(r.as_bytes()), hex(back.as_bytes()), b01(eq))
            }

            /// same on references (the function is defined on references)
            pub fn relto_ref(a: &[u8], b: &[u8]) -> String {
                let (Some(ai), Some(bi)) = (conv(a), conv(b)) else { return "invalid".into() };
                let Ok(a) = $Ref::new(ai) else { return "invalid".into() };
                let Ok(b) = $Ref::new(bi) else { return "invalid".into() };
                let r = a.relative_to(b);
                hex(r.as_bytes())
            }

            // ---------------- suffix / base (C16) ----------------

            pub fn suffix(full: bool, a: &[u8], p: &[u8]) -> String {
                let (Some(ai), Some(pi)) = (conv(a), conv(p)) else { return "invalid".into() };
                let fmt = |r: Option<(PathBuf, Option<&Query>, Option<&Fragment>)>| match r {
                    None => "none".to_string(),
                    Some((s, q, f)) => format!(
                        "{} {} {}",
                        hex(s.as_bytes()),
                        ohex(q.map(|x| x.as_bytes())),
                        ohex(f.map(|x| x.as_bytes()))
                    ),
                };
                if full {
                    let Ok(a) = $Ri::new(ai) else { return "invalid".into() };
                    let Ok(p) = $Ri::new(pi) else { return "invalid".into() };
                    fmt(a.suffix(p))
                } else {
                    let Ok(a) = $Ref::new(ai) else { return "invalid".into() };
                    let Ok(p) = $Ref::new(pi) else { return "invalid".into() };
                    fmt(a.suffix(p))
                }
            }

            pub fn psuffix(a: &[u8], p: &[u8]) -> String {
                let (Some(ai), Some(pi)) = (conv(a), conv(p)) else { return "invalid".into() };
                let Ok(a) = Path::new(ai) else { return "invalid".into() };
                let Ok(p) = Path::new(pi) else { return "invalid".into() };
                match a.suffix(p) {
                    None => "none".into(),
                    Some(s) => hex(s.as_bytes()),
                }
            }

            pub fn base(full: bool, a: &[u8]) -> String {
                let Some(ai) = conv(a) else { return "invalid".into() };
                if full {
                    let Ok(a) = $Ri::new(ai) else { return "invalid".into() };
                    hex(a.base().as_bytes())
                } else {
                    let Ok(a) = $Ref::new(ai) else { return "invalid".into() };
                    hex(a.base().as_bytes())
                }
            }

            // ---------------- path queries and iteration (C12, C09) ----------------

            pub fn pathq(b: &[u8]) -> String {
                let Some(i) = conv(b) else { return "invalid".into() };
                let Ok(p) = Path::new(i) else { return "invalid".into() };
                let segs: Vec<String> = p.segments().map(|s| hex(bytes_of(s))).collect();
                let rsegs: Vec<String> = p.segments().rev().map(|s| hex(bytes_of(s))).collect();
                let nsegs: Vec<String> = p.normalized_segments().map(|s| hex(bytes_of(s))).collect();
                // the std adaptors of the normalised-segment iterator agree with the collected list
                let nlen = {
                    let n = p.normalized_segments().len();
                    let mut bad: Vec<&str> = Vec::new();
                    if n != nsegs.len() { bad.push("len") }
                    if p.normalized_segments().count() != nsegs.len() { bad.push("count") }
                    let (lo, hi) = p.normalized_segments().size_hint();
                    if lo > nsegs.len() || hi.map_or(false, |h| h < nsegs.len()) { bad.push("size_hint") }
                    if p.normalized_segments().last().map(|s| hex(bytes_of(s))) != nsegs.last().cloned() { bad.push("last") }
                    let mut it = p.normalized_segments();
                    let back = it.next_back().map(|s| hex(bytes_of(s)));
                    if back != nsegs.last().cloned() { bad.push("next_back") }
                    if it.len() != nsegs.len().saturating_sub(1) || it.count() != nsegs.len().saturating_sub(1) { bad.push("len-after-back") }
                    let mut it2 = p.normalized_segments();
                    if it2.nth(1).map(|s| hex(bytes_of(s))) != nsegs.get(1).cloned() { bad.push("nth") }
                    // derived queries that have no field of their own
                    if p.is_relative() == p.is_absolute() { bad.push("is_relative") }
                    {
                        let mut via_into: Vec<String> = Vec::new();
                        for sg in p { via_into.push(hex(bytes_of(sg))) }
                        if via_into != segs { bad.push("into_iter") }
                    }
                    for sg in p.segments() {
                        let b = bytes_of(sg);
                        let want = match b.iter().position(|&c| c == b':') {
                            Some(k) if k > 0 => b[0].is_ascii_alphabetic()
                                && b[1..k].iter().all(|&c| c.is_ascii_alphanumeric() || c == b'+' || c == b'-' || c == b'.'),
                            _ => false,
                        };
                        if sg.looks_like_scheme() != want { bad.push("looks_like_scheme") }
                    }
                    {
                        // the same questions put to the owned form (an inherent method on the
                        // buffer type shadows the one reached through `Deref`)
                        let o = p.to_owned();
                        if o.is_empty() != p.is_empty() { bad.push("owned_is_empty") }
                        if o.is_absolute() != p.is_absolute() || o.is_relative() != p.is_relative() { bad.push("owned_is_absolute") }
                        if o.segment_count() != p.segment_count() { bad.push("owned_segment_count") }
                        if o.first().map(|s| bytes_of(s)) != p.first().map(|s| bytes_of(s)) { bad.push("owned_first") }
                        if o.last().map(|s| bytes_of(s)) != p.last().map(|s| bytes_of(s)) { bad.push("owned_last") }
                        if o.file_name().map(|s| bytes_of(s)) != p.file_name().map(|s| bytes_of(s)) { bad.push("owned_file_name") }
                        if o.directory().as_bytes() != p.directory().as_bytes() { bad.push("owned_directory") }
                        if o.parent().map(|x| x.as_bytes()) != p.parent().map(|x| x.as_bytes()) { bad.push("owned_parent") }
                        if o.parent_or_empty().as_bytes() != p.parent_or_empty().as_bytes() { bad.push("owned_parent_or_empty") }
                        if o.segments().map(|s| hex(bytes_of(s))).collect::<Vec<_>>() != segs { bad.push("owned_segments") }
                        if o.normalized_segments().map(|s| hex(bytes_of(s))).collect::<Vec<_>>() != nsegs { bad.push("owned_normalized_segments") }
                        if o.normalized().as_bytes() != p.normalized().as_bytes() { bad.push("owned_normalized") }
                        if o.as_bytes() != p.as_bytes() || o.as_path().as_bytes() != p.as_bytes() { bad.push("owned_text") }
                    }
                    if bad.is_empty() { n.to_string() } else { format!("BAD:{}", bad.join("+")) }
                };
                format!(
                    "e={} a={} n={} first={} last={} fn={} dir={} par={} poe={} nlen={} segs=[{}] rsegs=[{}] nsegs=[{}] norm={} norm2={}",
                    b01(p.is_empty()),
                    b01(p.is_absolute()),
                    p.segment_count(),
                    ohex(p.first().map(|s| bytes_of(s))),
                    ohex(p.last().map(|s| bytes_of(s))),
                    ohex(p.file_name().map(|s| bytes_of(s))),
                    hex(p.directory().as_bytes()),
                    ohex(p.parent().map(|x| x.as_bytes())),
                    hex(p.parent_or_empty().as_bytes()),
                    nlen,
                    segs.join(","),
                    rsegs.join(","),
                    nsegs.join(","),
                    hex(p.normalized().as_bytes()),
                    hex(p.normalized().normalized().as_bytes()),
                )
            }

            /// `segs x.. SCHEDULE` where SCHEDULE is a string over `f`/`b`
            pub fn segs(b: &[u8], sched: &str) -> String {
                let Some(i) = conv(b) else { return "invalid".into() };
                let Ok(p) = Path::new(i) else { return "invalid".into() };
                let mut it = p.segments();
                let mut out = Vec::new();
                for c in sched.chars() {
                    let r = match c {
                        'f' => it.next(),
                        'b' => it.next_back(),
                        'N' => it.nth(1),
                        'B' => it.nth_back(1),
                        // terminal: consume what is left through the std adaptors
                        'c' => { out.push(format!("rest={}", it.count())); break }
                        'l' => { out.push(format!("last={}", ohex(it.last().map(|s| bytes_of(s))))); break }
                        'z' => {
                            let (lo, hi) = it.size_hint();
                            let n = it.count();
                            let ok = lo <= n && hi.map_or(true, |h| n <= h);
                            out.push(format!("hint={} rest={}", if ok { "ok" } else { "BAD" }, n));
                            break
                        }
                        _ => return "bad-op".into(),
                    };
                    out.push(ohex(r.map(|s| bytes_of(s))));
                }
                out.join(",")
            }

            // ---------------- comparison and hashing (C07, C08) ----------------

            macro_rules! cmp_kind {
                ($T:ident, $a:expr, $b:expr) => {{
                    let (Some(ai), Some(bi)) = (conv($a), conv($b)) else { return Some("invalid".into()) };
                    let Ok(a) = $T::new(ai) else { return Some("invalid".into()) };
                    let Ok(b) = $T::new(bi) else { return Some("invalid".into()) };
                    let ao = a.to_owned();
                    let bo = b.to_owned();
                    let e = a == b;
                    let c = a.cmp(b);
                    let eo = ao == bo;
                    let co = ao.cmp(&bo);
                    let h = trace(a) == trace(b);
                    // the same two texts as views into ONE buffer (a prefix or a suffix of the other
                    // operand's memory): where a value was sliced from must not matter
                    let mut alias_bad = false;
                    {
                        let (la, lb) = ($a.len(), $b.len());
                        if lb <= la && $a[..lb] == $b[..] {
                            if let Some(Ok(b2)) = conv(&$a[..lb]).map(|x| $T::new(x)) {
                                if (a == b2) != e || (b2 == a) != e || a.cmp(b2) != c || trace(b2) != trace(b) { alias_bad = true }
                            }
                        }
                        if lb <= la && $a[la - lb..] == $b[..] {
                            if let Some(Ok(b2)) = conv(&$a[la - lb..]).map(|x| $T::new(x)) {
                                if (a == b2) != e || (b2 == a) != e || a.cmp(b2) != c { alias_bad = true }
                            }
                        }
                        if la <= lb && $b[..la] == $a[..] {
                            if let Some(Ok(a2)) = conv(&$b[..la]).map(|x| $T::new(x)) {
                                if (a2 == b) != e || (b == a2) != e || a2.cmp(b) != c { alias_bad = true }
                            }
                        }
                    }
                    if alias_bad {
                        Some(format!("ALIAS-DIFFERS {} {}", b01(e), ord(c)))
                    } else if e == eo && c == co {
                        Some(format!("{} {} {}", b01(e), ord(c), b01(h)))
                    } else {
                        Some(format!("OWNED-DIFFERS {} {} {} {}", b01(e), ord(c), b01(eo), ord(co)))
                    }
                }};
            }

            pub fn cmp(kind: &str, a: &[u8], b: &[u8]) -> Option<String> {
                match kind {
                    "full" => cmp_kind!($Ri, a, b),
                    "ref" => cmp_kind!($Ref, a, b),
                    "authority" => cmp_kind!(Authority, a, b),
                    "userinfo" => cmp_kind!(UserInfo, a, b),
                    "host" => cmp_kind!(Host, a, b),
                    "segment" => cmp_kind!(Segment, a, b),
                    "query" => cmp_kind!(Query, a, b),
                    "fragment" => cmp_kind!(Fragment, a, b),
                    "path" => {
                        let (Some(ai), Some(bi)) = (conv(a), conv(b)) else { return Some("invalid".into()) };
                        let Ok(a) = Path::new(ai) else { return Some("invalid".into()) };
                        let Ok(b) = Path::new(bi) else { return Some("invalid".into()) };
                        Some(format!("{} {} {}", b01(a == b), ord(a.cmp(b)), b01(trace(a) == trace(b))))
                    }
                    // a full value against a reference, both directions
                    "fullref" => {
                        let (Some(ai), Some(bi)) = (conv(a), conv(b)) else { return Some("invalid".into()) };
                        let Ok(a) = $Ri::new(ai) else { return Some("invalid".into()) };
                        let Ok(b) = $Ref::new(bi) else { return Some("invalid".into()) };
                        let e1 = *a == *b;
                        let e2 = *b == *a;
                        let c1 = a.partial_cmp(b).unwrap();
                        let c2 = b.partial_cmp(a).unwrap();
                        Some(format!("{} {} {} {}", b01(e1), ord(c1), b01(e2), ord(c2)))
                    }
                    _ => None,
                }
            }

            macro_rules! hash_kind {
                ($T:ident, $a:expr) => {{
                    let Some(ai) = conv($a) else { return Some("invalid".into()) };
                    let Ok(a) = $T::new(ai) else { return Some("invalid".into()) };
                    let t = trace(a);
                    let to = trace(&a.to_owned());
                    if t == to {
                        Some(t)
                    } else {
                        Some(format!("OWNED-DIFFERS {} {}", t, to))
                    }
                }};
            }

            pub fn hash(kind: &str, a: &[u8]) -> Option<String> {
                match kind {
                    "full" => hash_kind!($Ri, a),
                    "ref" => hash_kind!($Ref, a),
                    "authority" => hash_kind!(Authority, a),
                    "userinfo" => hash_kind!(UserInfo, a),
                    "host" => hash_kind!(Host, a),
                    "segment" => hash_kind!(Segment, a),
                    "query" => hash_kind!(Query, a),
                    "fragment" => hash_kind!(Fragment, a),
                    "path" => {
                        let Some(ai) = conv(a) else { return Some("invalid".into()) };
                        let Ok(a) = Path::new(ai) else { return Some("invalid".into()) };
                        Some(trace(a))
                    }
                    _ => None,
                }
            }
        }
    };
}

fn conv_u(b: &[u8]) -> Option<&[u8]> { Some(b) }
fn own_u(b: &[u8]) -> Vec<u8> { b.to_vec() }
fn ownvec_u(b: Vec<u8>) -> Option<Vec<u8>> { Some(b) }
fn conv_i(b: &[u8]) -> Option<&str> { std::str::from_utf8(b).ok() }
fn own_i(b: &str) -> String { b.to_string() }
fn ownvec_i(b: Vec<u8>) -> Option<String> { String::from_utf8(b).ok() }

family!(u, uri, [u8], Vec<u8>, Uri, UriBuf, UriRef, UriRefBuf, conv_u, own_u, ownvec_u);
family!(i, iri, str, String, Iri, IriBuf, IriRef, IriRefBuf, conv_i, own_i, ownvec_i);

use crate::{ctor, extra};

pub fn dispatch(t: &[&str]) -> Option<String> {
    let op = *t.first()?;
    macro_rules! fam {
        ($f:expr, $call:ident ( $($arg:expr),* )) => {
            match $f { "u" => u::$call($($arg),*), "i" => i::$call($($arg),*), _ => return None }
        };
    }
    match op {
        "ctor" => ctor::ctor(t.get(1)?, &unhex(t.get(2)?)?),
        "parts" => {
            let full = match *t.get(2)? { "full" => true, "ref" => false, _ => return None };
            let b = unhex(t.get(3)?)?;
            Some(fam!(*t.get(1)?, parts(full, &b)))
        }
        "auth" => {
            let b = unhex(t.get(2)?)?;
            Some(fam!(*t.get(1)?, auth(&b)))
        }
        "hist" => {
            let b = unhex(t.get(3)?)?;
            let ops = &t[4..];
            match *t.get(2)? {
                "ref" => fam!(*t.get(1)?, hist_ref(&b, ops)),
                "full" => fam!(*t.get(1)?, hist_full(&b, ops)),
                "path" => fam!(*t.get(1)?, hist_path(&b, ops)),
                _ => None,
            }
        }
        "resolve" => {
            let b = unhex(t.get(2)?)?;
            let r = unhex(t.get(3)?)?;
            Some(fam!(*t.get(1)?, resolve(&b, &r)))
        }
        "relto" => {
            let a = unhex(t.get(2)?)?;
            let b = unhex(t.get(3)?)?;
            Some(fam!(*t.get(1)?, relto(&a, &b)))
        }
        "reltoref" => {
            let a = unhex(t.get(2)?)?;
            let b = unhex(t.get(3)?)?;
            Some(fam!(*t.get(1)?, relto_ref(&a, &b)))
        }
        "suffix" => {
            let full = match *t.get(2)? { "full" => true, "ref" => false, _ => return None };
            let a = unhex(t.get(3)?)?;
            let p = unhex(t.get(4)?)?;
            Some(fam!(*t.get(1)?, suffix(full, &a, &p)))
        }
        "psuffix" => {
            let a = unhex(t.get(2)?)?;
            let p = unhex(t.get(3)?)?;
            Some(fam!(*t.get(1)?, psuffix(&a, &p)))
        }
        "base" => {
            let full = match *t.get(2)? { "full" => true, "ref" => false, _ => return None };
            let a = unhex(t.get(3)?)?;
            Some(fam!(*t.get(1)?, base(full, &a)))
        }
        "pathq" => {
            let b = unhex(t.get(2)?)?;
            Some(fam!(*t.get(1)?, pathq(&b)))
        }
        "segs" => {
            let b = unhex(t.get(2)?)?;
            Some(fam!(*t.get(1)?, segs(&b, t.get(3)?)))
        }
        "cmp" => {
            let a = unhex(t.get(3)?)?;
            let b = unhex(t.get(4)?)?;
            fam!(*t.get(1)?, cmp(t.get(2)?, &a, &b))
        }
        "hash" => {
            let a = unhex(t.get(3)?)?;
            fam!(*t.get(1)?, hash(t.get(2)?, &a))
        }
        _ => extra::dispatch(t),
    }
}
