//! Correspondence harness: executes one operation per input line against the real
//! `iref` crate (in-process, under `catch_unwind`) and prints one canonical result line.
//!
//! Line protocol (tokens separated by one space):
//!   bytes   : `x` followed by lower-case hex (`x` alone is the empty string)
//!   absent  : `-`
//! The Lean driver (`/verif/lean/Main.lean`) prints the model's answer for the same
//! line; `/verif/bin/check` diffs the two streams.

use std::alloc::{GlobalAlloc, Layout, System};
use std::fmt::Write as _;
use std::io::{BufRead, Write};
use std::panic::{catch_unwind, AssertUnwindSafe};
use std::sync::atomic::{AtomicBool, AtomicUsize, Ordering as AO};

mod ctor;
mod extra;
mod ops;

// ---------------------------------------------------------------------------
// counting allocator (C20)

pub struct Counting;
pub static ALLOCS: AtomicUsize = AtomicUsize::new(0);
pub static COUNTING: AtomicBool = AtomicBool::new(false);

unsafe impl GlobalAlloc for Counting {
    unsafe fn alloc(&self, l: Layout) -> *mut u8 {
        if COUNTING.load(AO::Relaxed) {
            ALLOCS.fetch_add(1, AO::Relaxed);
        }
        System.alloc(l)
    }
    unsafe fn dealloc(&self, p: *mut u8, l: Layout) {
        System.dealloc(p, l)
    }
    unsafe fn realloc(&self, p: *mut u8, l: Layout, n: usize) -> *mut u8 {
        if COUNTING.load(AO::Relaxed) {
            ALLOCS.fetch_add(1, AO::Relaxed);
        }
        System.realloc(p, l, n)
    }
}

#[global_allocator]
static GLOBAL: Counting = Counting;

// ---------------------------------------------------------------------------
// encoding helpers

pub fn hex(b: &[u8]) -> String {
    let mut s = String::with_capacity(1 + 2 * b.len());
    s.push('x');
    for c in b {
        write!(s, "{:02x}", c).unwrap();
    }
    s
}

pub fn ohex(b: Option<&[u8]>) -> String {
    match b {
        None => "-".to_string(),
        Some(b) => hex(b),
    }
}

pub fn unhex(t: &str) -> Option<Vec<u8>> {
    let t = t.strip_prefix('x')?;
    if t.len() % 2 != 0 {
        return None;
    }
    let mut out = Vec::with_capacity(t.len() / 2);
    let b = t.as_bytes();
    for i in (0..b.len()).step_by(2) {
        let h = (b[i] as char).to_digit(16)?;
        let l = (b[i + 1] as char).to_digit(16)?;
        out.push((h * 16 + l) as u8);
    }
    Some(out)
}

/// `-` → None, `x..` → Some(bytes)
pub fn unohex(t: &str) -> Option<Option<Vec<u8>>> {
    if t == "-" {
        Some(None)
    } else {
        unhex(t).map(Some)
    }
}

fn main() {
    // silence the default panic message: panics are results here
    std::panic::set_hook(Box::new(|_| {}));
    let stdin = std::io::stdin();
    let stdout = std::io::stdout();
    let mut out = std::io::BufWriter::new(stdout.lock());
    for line in stdin.lock().lines() {
        let line = line.unwrap();
        let line = line.trim_end();
        if line.is_empty() || line.starts_with('#') {
            continue;
        }
        let toks: Vec<&str> = line.split(' ').collect();
        let res = catch_unwind(AssertUnwindSafe(|| ops::dispatch(&toks)));
        COUNTING.store(false, AO::Relaxed);
        match res {
            Ok(Some(s)) => writeln!(out, "{}", s).unwrap(),
            Ok(None) => writeln!(out, "bad-op").unwrap(),
            Err(_) => writeln!(out, "PANIC").unwrap(),
        }
    }
    out.flush().unwrap();
}
