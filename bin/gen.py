"""Input generators for the correspondence streams (see DESIGN.md 4.3).

Every random choice derives from one `random.Random(seed)`.  Each generator yields
protocol lines (see harness/src/main.rs).  Mostly-valid, structured inputs come from
G1 (grammar-directed), all short strings over delimiter alphabets from G2
(bounded-exhaustive), malformed inputs from G3, automaton-guided words from G4.
"""
import itertools
import re
import json
import random


def hx(b):
    if isinstance(b, str):
        b = b.encode("utf-8")
    return "x" + b.hex()


def ohx(b):
    return "-" if b is None else hx(b)


# --------------------------------------------------------------------------
# G1: grammar-directed components

SCHEMES = ["s", "http", "a+b-c.d", "A1", "z9", "https", "http+unix", "httpx", "https.", "HTTP", "file", "files", "data",
           "dat", "urn", "mailto", "ftp", "ws", "wss", "h", "ht"]
USERINFOS = [None, None, "", "u", "u:p", ":", "u%41", "a:b:c", "%C3%A9", "!$&'()*+,;=",
             # passwords that look like ports, user names that look like hosts
             "admin:123456", "u:00000", ":99999", "u:1234", "u:80", "1.2.3.4", "h.example:8080"]
# literal non-ASCII text whose UTF-8 octets alias the ASCII delimiters under `& 0x7f`
# (AF `/`, BF `?`, A3 `#`, BA `:`, A5 `%`, AE `.`, DB `[`, DD `]`, 80 NUL): a scanner that masks,
# truncates or sign-extends octets cuts these characters in two
ALIAS = ["\u00ef", "\u00bf", "\u00a3", "\u00ba", "\u00a5", "\u00ae", "\u06c0", "\u0750", "\u4e2f", "\U0001f4af"]
USERINFOS_I = USERINFOS + ["é", "日本"] + ALIAS[:6]
HOSTS = ["", "h", "example.org", "1.2.3.4", "255.255.255.255", "256.1.1.1", "[::1]", "[::]",
         "[1:2:3:4:5:6:7:8]", "[1::8]", "[::1.2.3.4]", "[v1.a:b]", "[vF.x]", "h%41", "a.b-c_d~",
         "%C3%A9", "127.0.0.1", "[1:2:3:4:5:6:1.2.3.4]", "[1:2::7:8]",
         # names a special case could be keyed on
         "localhost", "LOCALHOST", "localhost.", "www.example.com", "example.com", "0.0.0.0", "[::ffff:127.0.0.1]"]
HOSTS_I = HOSTS + ["é.org", "日本"] + ["h" + a for a in ALIAS[:6]]
PORTS = [None, None, "", "8", "80", "8080", "0", "65536", "000080", "123456", "0" * 20 + "1", "99999", "65535", "443", "21", "22"]
SEGS = ["a", "b", "c", "", ".", "..", "a:b", ":", "@", "a@b", "%2E", "%2e%2E", "a%2Fb", "x.y",
        "...", ";p", "a=1", "~", "-", "%41", "1:a", "@:b", "aaa", "d;p",
        "index.html", "%20", "a%20b", "a+b", ".git", ".well-known", "..a", "a..", ".a.", "%2e.", ".%2E"]
SEGS_I = SEGS + ["é", "日本", "a:é", "é:b", "a中:b", "日:本", "\U0001F600:x"] + ALIAS + ["na\u00efve", "\u00bfq", "1\u00a3"]
QUERIES = [None, None, "", "q", "a=b&c=d", "/?", "?", "q%41", "a/b?c", ":@", "%FF", "@", "u@h:8", "t=1:2",
           "//x@y/z", "a=1&b=2;c=3", "utm_source=x&id=1", "q=a+b", "q=a%2Bb", ":~:text=x", "&&", "=="]
QUERIES_I = QUERIES + ["é", "\ue000", "\U000f0000"] + ALIAS[:5]
FRAGS = [None, None, "", "f", "/?", "a/b", "f%41", ":@", "%C3%A9", "@", "u@h:8", "L1:2", "//x@y",
         # markers applications give a meaning to (text directives, hash-bang, key=value)
         "top:~:text=first%20words", ":~:", ":~:text=a,b", "!/path", "!", "a=1&b=2", "xpointer(/a/b)", "~:~", "%3A~:"]
FRAGS_I = FRAGS + ["é"] + ALIAS[:5]


# G1b: components composed from atoms (the fixed lists above only contain what somebody thought of)
ATOMS = ["a", "b", "Z", "0", "9", "-", ".", "_", "~", "!", "$", "&", "'", "(", ")", "*", "+", ",", ";", "=",
         "%41", "%61", "%2F", "%2f", "%3A", "%3a", "%40", "%3F", "%23", "%25", "%2E", "%2e", "%00", "%7F",
         "%C3%A9", "%c3%a9", "%E2%82%AC", "%F0%9F%98%80", "%FF", "%C0%AF", "%20"]
ATOMS_I = ["\u00e9", "\u00df", "\u20ac", "\u65e5", "\u672c", "\U00010000", "\U0001f600", "e\u0301", "\u200b"] + ALIAS


def rand_component(rng, f, extra=(), private=False):
    """0-4 atoms: unreserved, sub-delims, escapes in both cases, characters of every UTF-8 length for
    the IRI family, plus the delimiters (`extra`) this component may contain"""
    pool = ATOMS + list(extra) * 3
    if f == "i":
        pool = pool + ATOMS_I + (["\ue000", "\U000f0000"] if private else [])
    return "".join(rng.choice(pool) for _ in range(rng.choice([0, 1, 1, 2, 2, 3, 4])))


def fam_lists(f):
    if f == "i":
        return USERINFOS_I, HOSTS_I, SEGS_I, QUERIES_I, FRAGS_I
    return USERINFOS, HOSTS, SEGS, QUERIES, FRAGS


def rand_authority(rng, f):
    U, H, _, _, _ = fam_lists(f)
    u = rng.choice(U)
    h = rng.choice(H)
    p = rng.choice(PORTS)
    if rng.random() < 0.35 and u is not None:
        u = rand_component(rng, f, (":",))
    if rng.random() < 0.35:
        h = rand_component(rng, f)
    return ("" if u is None else u + "@") + h + ("" if p is None else ":" + p)


def rand_path(rng, f, kind=None, maxseg=5):
    """kind: None (any), 'abempty', 'absolute', 'noscheme', 'rootless', 'empty'"""
    _, _, S, _, _ = fam_lists(f)
    if kind is None:
        kind = rng.choice(["abempty", "absolute", "noscheme", "rootless", "empty", "any"])
    n = rng.choice([0, 1, 1, 2, 2, 3, 3, 4, maxseg])
    if rng.random() < 0.02:
        n = rng.choice([17, 20, 40])
    segs = [rng.choice(S) if rng.random() < 0.65 else rand_component(rng, f, (":", "@")) for _ in range(n)]
    if rng.random() < 0.01:
        segs = ["a" * 120] * 5
    if kind == "empty":
        return ""
    if kind == "abempty":
        return "".join("/" + s for s in segs)
    if kind == "absolute":
        if not segs:
            return "/"
        if segs[0] == "":
            segs[0] = "a"
        return "/" + "/".join(segs)
    if kind == "any":
        # any text made of segments (valid as a stand-alone path)
        lead = rng.choice(["", "/", "//"])
        return lead + "/".join(segs)
    if not segs:
        return ""
    if segs[0] == "":
        segs[0] = "a"
    if kind == "noscheme" and ":" in segs[0]:
        segs[0] = segs[0].replace(":", "_")
    return "/".join(segs)


def rand_ref(rng, f, full=False):
    _, _, _, Q, F = fam_lists(f)
    has_scheme = full or rng.random() < 0.5
    has_auth = rng.random() < 0.5
    s = ""
    if has_scheme:
        s += rng.choice(SCHEMES) + ":"
    if has_auth:
        s += "//" + rand_authority(rng, f) + rand_path(rng, f, "abempty")
    else:
        kind = rng.choice(["absolute", "rootless" if has_scheme else "noscheme", "empty"])
        s += rand_path(rng, f, kind)
    q = rng.choice(Q)
    fr = rng.choice(F)
    if q is not None and rng.random() < 0.35:
        q = rand_component(rng, f, (":", "@", "/", "?"), private=True)
    if fr is not None and rng.random() < 0.35:
        fr = rand_component(rng, f, (":", "@", "/", "?"))
    if q is not None:
        s += "?" + q
    if fr is not None:
        s += "#" + fr
    return s


def mutate(rng, s):
    b = bytearray(s.encode("utf-8") if isinstance(s, str) else s)
    k = rng.choice([1, 1, 2])
    for _ in range(k):
        op = rng.randrange(4)
        pos = rng.randrange(len(b) + 1)
        c = rng.choice(b":/?#@[]%. a1\x00\x7f\x80\xff\xc3\xa9 \"<>\\^`{|}")
        if op == 0:
            b.insert(pos, c)
        elif op == 1 and b:
            del b[min(pos, len(b) - 1)]
        elif op == 2 and b:
            b[min(pos, len(b) - 1)] = c
        else:
            b.insert(pos, rng.randrange(256))
    return bytes(b)


SPECIAL_CHARS = ["\ufeff", "\u200b", "\u2028", "\u2029", "\u00a0", "\u0085", "\ufffd", "\ue000", "\ufdd0",
                 "\uffff", "\U000e0001", "\U0010fffd", "\u0000", "\u0009", "\u000a", "\u000d", "\u0020", "\u007f"]
BAD_UTF8 = [b"\x80", b"\xc3", b"\xe2\x82", b"\xc0\xaf", b"\xed\xa0\x80", b"\xf5\x80\x80\x80",
            b"\xf4\x90\x80\x80", b"a\xffb", b"\xe0\x80\x80", b"\xf0\x80\x80\x80"]


def exhaustive(alphabet, k):
    for n in range(k + 1):
        for t in itertools.product(alphabet, repeat=n):
            yield "".join(t)


# --------------------------------------------------------------------------
# G4: automaton-guided words

def class_reps(a):
    bounds = set([0])
    for fin, trans in a["states"]:
        for rs, t in trans:
            for lo, hi in rs:
                bounds.add(lo)
                bounds.add(hi + 1)
    top = 256 if a["item"] == "u8" else 0x110000
    reps = []
    for b in sorted(bounds):
        if b < top and not (0xD800 <= b <= 0xDFFF):
            reps.append(b)
    if a["item"] == "char":
        reps.append(0xE000)
    return sorted(set(reps))


def dfa_step(a, q, c):
    for rs, t in a["states"][q][1]:
        for lo, hi in rs:
            if lo <= c <= hi:
                return t
    return None


def g4_words(a):
    """for every state: a shortest access word; then every class representative from it,
    each completed by a shortest accepting suffix when one exists"""
    n = len(a["states"])
    reps = class_reps(a)
    access = {a["init"]: []}
    order = [a["init"]]
    i = 0
    while i < len(order):
        q = order[i]
        i += 1
        for c in reps:
            t = dfa_step(a, q, c)
            if t is not None and t not in access:
                access[t] = access[q] + [c]
                order.append(t)
    # shortest accepting completion per state (backward BFS)
    comp = {q: [] for q in range(n) if a["states"][q][0]}
    changed = True
    while changed:
        changed = False
        for q in range(n):
            if q in comp:
                continue
            best = None
            for c in reps:
                t = dfa_step(a, q, c)
                if t is not None and t in comp:
                    cand = [c] + comp[t]
                    if best is None or len(cand) < len(best):
                        best = cand
            if best is not None:
                comp[q] = best
                changed = True
    words = []
    for q, w in access.items():
        words.append(w)
        if q in comp:
            words.append(w + comp[q])
        for c in reps:
            t = dfa_step(a, q, c)
            words.append(w + [c])
            if t is not None and t in comp:
                words.append(w + [c] + comp[t])
    return words


def enc_word(a, w):
    if a["item"] == "u8":
        return bytes(w)
    return "".join(chr(c) for c in w).encode("utf-8")


KINDS_U = ["uri", "uriRef", "scheme", "uriAuthority", "uriUserInfo", "uriHost", "port", "uriPath",
           "uriSegment", "uriQuery", "uriFragment"]
KINDS_I = ["iri", "iriRef", "iriAuthority", "iriUserInfo", "iriHost", "iriPath", "iriSegment",
           "iriQuery", "iriFragment"]


def sample_for_kind(rng, kind):
    f = "i" if kind.startswith("iri") else "u"
    U, H, S, Q, F = fam_lists(f)
    if kind in ("uri", "iri"):
        return rand_ref(rng, f, full=True)
    if kind in ("uriRef", "iriRef"):
        return rand_ref(rng, f)
    if kind == "scheme":
        return rng.choice(SCHEMES + ["", "1a", "a:", "a b"])
    if kind.endswith("Authority"):
        return rand_authority(rng, f)
    if kind.endswith("UserInfo"):
        return rng.choice([u for u in U if u is not None] + ["a@b", "a/b"])
    if kind.endswith("Host"):
        return rng.choice(H + ["[::1", "a:b", "[::1]x"])
    if kind == "port":
        return rng.choice([p for p in PORTS if p is not None] + ["8a", "-1"])
    if kind.endswith("Path"):
        return rand_path(rng, f)
    if kind.endswith("Segment"):
        return rng.choice(S + ["a/b", "a?b"])
    if kind.endswith("Query"):
        return rng.choice([q for q in Q if q is not None] + ["a#b"])
    if kind.endswith("Fragment"):
        return rng.choice([x for x in F if x is not None] + ["a#b"])
    raise KeyError(kind)


# --------------------------------------------------------------------------
# streams

def special_ctor_lines(rng, kind):
    for c in SPECIAL_CHARS:
        cb = c.encode("utf-8")
        yield "ctor %s %s" % (kind, hx(cb))
        for base in (sample_for_kind(rng, kind), "http://example.org/", "foo/bar", "a"):
            bb = base.encode("utf-8") if isinstance(base, str) else base
            yield "ctor %s %s" % (kind, hx(cb + bb))
            yield "ctor %s %s" % (kind, hx(bb + cb))


def stream_ctor(rng, tier, automata):
    n_rand = 300 if tier == "quick" else 5000
    k = 3 if tier == "quick" else 4
    for kind in KINDS_U + KINDS_I:
        a = automata[kind]
        words = g4_words(a)
        if tier == "quick" and len(words) > 2500:
            # keep every state's access/completion words, sample the rest
            words = words[:400] + rng.sample(words[400:], 2100)
        for w in words:
            yield "ctor %s %s" % (kind, hx(enc_word(a, w)))
        alpha = "a:/?#@[]%1." + ("é" if a["item"] == "char" else "")
        for s in exhaustive(alpha, k if kind in ("uriRef", "iriRef", "uri", "iri") else 3):
            yield "ctor %s %s" % (kind, hx(s))
        for _ in range(n_rand):
            s = sample_for_kind(rng, kind)
            yield "ctor %s %s" % (kind, hx(s))
            if rng.random() < 0.5:
                yield "ctor %s %s" % (kind, hx(mutate(rng, s)))
        for b in BAD_UTF8:
            yield "ctor %s %s" % (kind, hx(b))
            yield "ctor %s %s" % (kind, hx(b"a" + b + b"/b"))
        # characters that text-handling code likes to treat specially (byte order mark, zero-width
        # and line separators, replacement character, private use, non-characters, NUL/controls):
        # in front of, behind and alone around valid and invalid samples, through every route in
        yield from special_ctor_lines(rng, kind)


def stream_parts(rng, tier):
    k = 5 if tier == "quick" else 7
    for s in exhaustive("a:/?#@.", k):
        yield "parts u ref %s" % hx(s)
        if ":" in s:
            yield "parts u full %s" % hx(s)
    for s in exhaustive("é:/?#", 4 if tier == "quick" else 5):
        yield "parts i ref %s" % hx(s)
        yield "parts i full %s" % hx(s)
    for s in dict_refs():
        for f in "ui":
            yield "parts %s ref %s" % (f, hx(s))
            yield "parts %s full %s" % (f, hx(s))
    # every shape of authority (user info or none, every kind of host incl. IP literals, port or
    # none) behind '//' alone and behind a scheme, followed by every kind of continuation: the
    # scheme-less and the scheme-led references go through different scanner entry points
    for f in "ui":
        _, Hf, _, _, _ = fam_lists(f)
        hosts = list(_ORIG["HOSTS_I" if f == "i" else "HOSTS"]) if _ORIG else list(Hf)
        for u in [None, "", "u", "u:p"]:
            for h in hosts:
                for pt in [None, "", "80"]:
                    au = ("" if u is None else u + "@") + h + ("" if pt is None else ":" + pt)
                    for tail in ["", "/", "/p", "?q", "#f", "/p?q#f", "//x", "/a:b", "?[", "#]"]:
                        yield "parts %s ref %s" % (f, hx("//" + au + tail))
                        yield "parts %s full %s" % (f, hx("s://" + au + tail))
    n = 12000 if tier == "quick" else 200000
    for _ in range(n):
        f = rng.choice("ui")
        full = rng.random() < 0.4
        s = rand_ref(rng, f, full)
        yield "parts %s %s %s" % (f, "full" if full else "ref", hx(s))
        if rng.random() < 0.1:
            yield "parts %s %s %s" % (f, "full" if full else "ref", hx(mutate(rng, s)))


def stream_auth(rng, tier):
    k = 5 if tier == "quick" else 6
    for s in exhaustive("a:@[]1.", k):
        yield "auth u %s" % hx(s)
    U, H, _, _, _ = fam_lists("i")
    def core(name, lst):
        # the hand-written entries, everything the dictionary brought that is new, a sample of the rest
        orig = _ORIG[name] if _ORIG else lst
        extra = [x for x in lst[len(orig):]]
        hot = [x for x in extra if x in FRESH][:60]
        cold = [x for x in extra if x not in FRESH]
        return list(orig) + hot + cold[::max(1, len(cold) // 12)][:12]
    for f in "ui":
        Uf, Hf, _, _, _ = fam_lists(f)
        Uc = core("USERINFOS_I" if f == "i" else "USERINFOS", Uf)
        Hc = core("HOSTS_I" if f == "i" else "HOSTS", Hf)
        Pc = core("PORTS", PORTS)
        for u in Uc:
            for h in Hc:
                for p in Pc:
                    yield "auth %s %s" % (f, hx(("" if u is None else u + "@") + h +
                                                ("" if p is None else ":" + p)))
        # the rest of the dictionary, one sub-component at a time
        for u in Uf:
            yield "auth %s %s" % (f, hx(("" if u is None else u + "@") + "h:1"))
        for h in Hf:
            yield "auth %s %s" % (f, hx("u@" + h + ":1"))
            yield "auth %s %s" % (f, hx(h))
        for p in PORTS:
            yield "auth %s %s" % (f, hx("u@h" + ("" if p is None else ":" + p)))
    # characters of every UTF-8 length (2, 3 and 4 bytes) right before and right after each delimiter
    for c in ["\u00e9", "\u20ac", "\U00010000", "\U00020000", "\U0010fffd"]:
        for t in ["u%s@host", "%s@host", "u@%shost", "u@host%s:80", "%s:80", "host%s:80", "u%s:p%s@h%s:1", "u:%s@h", "%s", "%s@", "@%s", "%s:"]:
            a = t.replace("%s", c)
            yield "auth i %s" % hx(a)
            yield "parts i ref %s" % hx("//" + a + "/p")
            yield "parts i full %s" % hx("s://" + a + "/p?q#f")
    n = 1500 if tier == "quick" else 20000
    for _ in range(n):
        f = rng.choice("ui")
        yield "auth %s %s" % (f, hx(mutate(rng, rand_authority(rng, f))))


def pm_ops(rng, f, n):
    _, _, S, _, _ = fam_lists(f)
    out = []
    for _ in range(n):
        r = rng.random()
        if r < 0.4:
            out.append("push:" + hx(rng.choice(S)))
        elif r < 0.6:
            out.append("pop")
        elif r < 0.65:
            out.append("clear")
        elif r < 0.8:
            out.append("spush:" + hx(rng.choice(S)))
        elif r < 0.9:
            out.append("sapp:" + hx(rand_path(rng, f, "any", 3)))
        else:
            out.append("norm")
    return out


def am_ops(rng, f, n):
    U, H, _, _, _ = fam_lists(f)
    out = []
    for _ in range(n):
        r = rng.random()
        if r < 0.4:
            out.append("ui:" + ohx(rng.choice(U)))
        elif r < 0.7:
            out.append("host:" + hx(rng.choice(H)))
        else:
            out.append("port:" + ohx(rng.choice(PORTS)))
    return out


def setter_op(rng, f):
    U, H, S, Q, F = fam_lists(f)
    r = rng.randrange(5)
    if r == 0:
        return "ss:" + ohx(rng.choice(SCHEMES + [None, None]))
    if r == 1:
        return "sa:" + (ohx(None) if rng.random() < 0.3 else hx(rand_authority(rng, f)))
    if r == 2:
        return "sp:" + hx(rand_path(rng, f, "any", 3))
    if r == 3:
        return "sq:" + ohx(rng.choice(Q))
    return "sf:" + ohx(rng.choice(F))


SMALL_REFS = None


def small_refs():
    """all valid-looking short references over a delimiter alphabet (validity is decided by
    the harness; invalid ones come back as `invalid` on both sides)"""
    global SMALL_REFS
    if SMALL_REFS is None:
        SMALL_REFS = [s for s in exhaustive("a:/?#.", 4)]
    return SMALL_REFS


SETTER_VALUES = {
    "ss": [None, "s", "b1", "file", "FILE", "https", "urn", "mailto"],
    "sa": [None, "", "h", "u@h:1", "[::1]"],
    "sp": ["", "/", "a", "/a", "//a", "a:b", ":", "./a:b", "a/b", "//", "/.//a", "1:a", "@:b",
           "a/../b", "..", "."],
    "sq": [None, "", "q", "?/"],
    "sf": [None, "", "f", "?/"],
}


def stream_setters(rng, tier):
    """C05: one setter per line on bounded-exhaustive buffers, plus random structured ones"""
    refs = small_refs() if tier == "thorough" else [s for s in exhaustive("a:/?#.", 3)] + \
        ["a://", "s://h", "s://h/a", "//h/a?q#f", "s:a:b", "a:b/c", "s:/a//b", "s://h//a", "aaa:@:",
         "s:?q", "s:#f", "//h?q", "//@:", "s://u@h:1/p?q#f", "/a:b", "./a:b", "s:/.//a",
         "s://h:/old?q#f", "//h:/old#f", "s://h:", "//u@h:?q", "s://[::1]:/p", "//h:", "s://h:?q",
         "http://example.org#/home", "s://h?/search#top", "//h?//x", "s://h#//", "s:?/a", "s:#/", "//h?a:b", "s://h#a:b/c"]
    for b in refs:
        for op, vals in SETTER_VALUES.items():
            for v in vals:
                for fam in ("u",) if tier == "quick" else ("u", "i"):
                    yield "hist %s ref %s %s:%s" % (fam, hx(b), op, ohx(v))
                if ":" in b and not (op == "ss" and v is None):
                    yield "hist u full %s %s:%s" % (hx(b), op, ohx(v))
    for b in dict_refs():
        for op, vals in SETTER_VALUES.items():
            for v in vals[:6] if op != "ss" else vals:
                yield "hist u ref %s %s:%s" % (hx(b), op, ohx(v))
                if not (op == "ss" and v is None):
                    yield "hist u full %s %s:%s" % (hx(b), op, ohx(v))
    # the *old* component holds escapes and multi-byte characters (byte length differs from the
    # decoded length and from the character count): every setter, all four buffer types
    esc_bases = ["//h/p?q#%41b", "s:a#x%2Fy", "s://h/p?%41%42=%43#f", "s://u%40x@h%2E:1/%2e/p?q#%C3%A9%C3%A9",
                 "s:%61%62/c?d#e", "//h#%23%23%23", "s://h/a?%3F%3F#%25", "s://%5B/p#%5D"]
    for b in esc_bases:
        for op, vals in SETTER_VALUES.items():
            for v in vals:
                for fam in "ui":
                    yield "hist %s ref %s %s:%s" % (fam, hx(b), op, ohx(v))
                    if b.startswith("s:") and not (op == "ss" and v is None):
                        yield "hist %s full %s %s:%s" % (fam, hx(b), op, ohx(v))
    for b, tail in [("s://h/p", "é"), ("//h/p?q", "日本"), ("s:a", "\U0001F600x")]:
        for op, vals in SETTER_VALUES.items():
            for v in vals:
                yield "hist i ref %s %s:%s" % (hx(b + "#" + tail), op, ohx(v))
                yield "hist i ref %s %s:%s" % (hx(b.split("?")[0] + "?" + tail + "#f"), op, ohx(v))
                if b.startswith("s:") and not (op == "ss" and v is None):
                    yield "hist i full %s %s:%s" % (hx(b + "#" + tail), op, ohx(v))
    # the colon shield when the text before the `:` is not ASCII (IRI family): a first segment
    # such as `é:b` needs `./` exactly like `a:b`
    for b, op, v in [("s:é:b", "ss", None), ("s:a中:b/c", "ss", None), ("s://h/é:b", "sa", None), ("//h/é:b?q", "sa", None),
                     ("x", "sp", "é:b"), ("", "sp", "a中:b"), ("?q", "sp", "é:b/c"), ("s:x", "sp", "é:b"), ("s://h", "sp", "/é:b"),
                     ("s:./é:b", "ss", None), ("s:é:b", "ss", "t"), ("./é:b", "ss", "s")]:
        yield "hist i ref %s %s:%s" % (hx(b), op, ohx(v))
    # a new value that equals the old one after percent-decoding but is spelled differently must
    # still be written (setters are about text): every component, both directions, hex case too
    respell = [("s://ex%61mple.org/p?q#f", "sa", "example.org"), ("s://example.org/p", "sa", "ex%61mple.org"),
               ("//%7euser@host:80/x", "sa", "~user@host:80"), ("//%7euser@host:80/x", "sa", "%7Euser@host:80"),
               ("s://h/a%2Fb?q", "sp", "/a%2fb"), ("s://h/%61", "sp", "/a"), ("s:a", "sp", "%61"),
               ("s://h/p?q%3D1#f", "sq", "q%3d1"), ("s://h/p?%71", "sq", "q"), ("s://h/p?q", "sq", "%71"),
               ("s://h/p#f%41", "sf", "f%41"), ("s://h/p#%66", "sf", "f"), ("s://h/p#f", "sf", "%66")]
    for b, op, v in respell:
        yield "hist u ref %s %s:%s" % (hx(b), op, hx(v))
        yield "hist i ref %s %s:%s" % (hx(b), op, hx(v))
        if ":" in b.split("/")[0]:
            yield "hist u full %s %s:%s" % (hx(b), op, hx(v))
    for fam, b, v in [("i", "s://%C3%A9/", "%c3%a9"), ("i", "s://%C3%A9/", "é"), ("i", "s://é/", "%C3%A9")]:
        yield "hist %s ref %s sa:%s" % (fam, hx(b), hx(v))
    # two and three setters in a row on one buffer: the first shrinks it (spare capacity stays
    # behind), the next grows it by less than the tail that follows
    longs = ["http://example.org/a/b?query-part#fragment-part", "http://user:pw@example.org:8080/some/long/path/to/file?k=v&k2=v2#sec",
             "//example.org/abc/def/ghi?qqqqqqqqqq#ffffffffff", "s:/aaaaaaaaaa/bbbbbbbbbb?cccccccccc#dddddddddd"]
    shrink = ["sq:" + ohx(None), "sf:" + ohx(None), "sa:" + ohx(None), "sa:" + hx("h"), "sp:" + hx("/"), "sq:" + hx(""), "sf:" + hx("")]
    grow = ["ss:" + hx("https"), "ss:" + hx("a1"), "sa:" + hx("www.example.org"), "sa:" + hx("u@h:1"), "sp:" + hx("/x/y"),
            "sp:" + hx("/a/b/c/d/e"), "sq:" + hx("k"), "sq:" + hx("key=value"), "sf:" + hx("s"), "sf:" + hx("section-2")]
    for b in longs:
        for o1 in shrink:
            for o2 in grow:
                for fam in "ui":
                    yield "hist %s ref %s %s %s" % (fam, hx(b), o1, o2)
                    if b.startswith(("http:", "s:")) and not o2.startswith("ss:" + ohx(None)):
                        yield "hist %s full %s %s %s" % (fam, hx(b), o1, o2)
            for o2 in rng.sample(grow, 3):
                for o3 in rng.sample(grow, 2):
                    yield "hist u ref %s %s %s %s" % (hx(b), o1, o2, o3)
    n = 9000 if tier == "quick" else 100000
    for _ in range(n):
        f = rng.choice("ui")
        full = rng.random() < 0.3
        b = rand_ref(rng, f, full)
        yield "hist %s %s %s %s" % (f, "full" if full else "ref", hx(b), setter_op(rng, f))


def stream_history(rng, tier):
    """C04: mixed operation sequences on all six buffer types"""
    n = 12000 if tier == "quick" else 150000
    for _ in range(n):
        f = rng.choice("ui")
        t = rng.choice(["ref", "ref", "full", "path"])
        ops = []
        L = rng.choice([1, 2, 3, 4, 6, 8]) if tier == "quick" else rng.choice([2, 4, 8, 12])
        if t == "path":
            b = rand_path(rng, f, "any")
            for _ in range(L):
                if rng.random() < 0.3:
                    ops.append("pm[" + ";".join(pm_ops(rng, f, rng.choice([1, 2, 3]))) + "]")
                else:
                    ops.extend(pm_ops(rng, f, 1))
        else:
            b = rand_ref(rng, f, t == "full")
            for _ in range(L):
                r = rng.random()
                if r < 0.45:
                    ops.append(setter_op(rng, f))
                elif r < 0.7:
                    ops.append("pm[" + ";".join(pm_ops(rng, f, rng.choice([1, 2, 3]))) + "]")
                elif r < 0.9:
                    ops.append("am[" + ";".join(am_ops(rng, f, rng.choice([1, 2, 3]))) + "]")
                elif t == "ref":
                    ops.append("res:" + hx(rand_ref(rng, f, True)))
                else:
                    ops.append(setter_op(rng, f))
            if t == "full":
                ops = [o for o in ops if o != "ss:-"]
                if not ops:
                    ops = ["sq:-"]
        yield "hist %s %s %s %s" % (f, t, hx(b), " ".join(ops))
    # `..` consumes the head of the path and what becomes first needs a shield (a `:` in it, or empty)
    for b in ["x/../1:b", "x/y/../../é:b", "s:/a/..//b:c", "a/../:x", "./x/../a:b", "x/../a:b/c", "s:x/..//a", "a/b/../../c:d?q#f",
              "//h/a/..//b", "s:a/../..//x", "x/./../:"]:
        for op in ["pm[norm]", "pm[norm;pop]", "pm[spush:%s;norm]" % hx("."), "res:" + hx("s://h/p/q"), "res:" + hx("s:p/q"), "res:" + hx("s:/p"),
                   "pm[norm] ss:" + ohx(None), "sa:" + ohx(None) + " pm[norm]"]:
            f = "u" if b.isascii() else "i"
            yield "hist %s ref %s %s" % (f, hx(b), op)
            if f == "u":
                yield "hist i ref %s %s" % (hx(b), op)
    # every kind of single edit on the references built around the dictionary
    for b in dict_focus():
        for op in DICT_EDITS:
            for f in "ui":
                yield "hist %s ref %s %s" % (f, hx(b), op)
                if op != "ss:" + ohx(None):
                    yield "hist %s full %s %s" % (f, hx(b), op)
    # default / from_scheme starting points
    for f in "ui":
        for _ in range(200 if tier == "quick" else 5000):
            ops = [setter_op(rng, f) for _ in range(3)] + \
                  ["pm[" + ";".join(pm_ops(rng, f, 2)) + "]"]
            yield "hist %s ref x %s" % (f, " ".join(ops))
            ops = [o for o in ops if o != "ss:-"]
            yield "hist %s full %s %s" % (f, hx(rng.choice(SCHEMES) + ":"), " ".join(ops))


PATHS_SMALL = None


def small_paths(k):
    return [s for s in exhaustive("a/.:", k)]


def stream_pathmut(rng, tier):
    """C10 (and the in-place half of C09): edits through one handle, stand-alone and in place"""
    args = ["a", "", ".", "..", "a:b", ":"]
    single = ["push:" + hx(a) for a in args] + ["pop", "clear", "norm"] + \
             ["spush:" + hx(a) for a in args] + ["sapp:" + hx(p) for p in ["", "a/b", "../c", "./", "..", "/a", "a//"]]
    paths = small_paths(4 if tier == "quick" else 6)
    for p in paths:
        for op in single:
            yield "hist u path %s pm[%s]" % (hx(p), op)
    ctxs = ["", "s:", "//h", "s://h", "//h?q", "s:?q#f", "?q"]
    for p in small_paths(3 if tier == "quick" else 5):
        for c in ctxs:
            pre, _, post = c.partition("?")
            post = ("?" + post) if "?" in c else ""
            b = pre + p + post
            for op in single:
                yield "hist u ref %s pm[%s]" % (hx(b), op)
    # pairs of edits through one handle
    for p in small_paths(2 if tier == "quick" else 3):
        for o1 in single:
            for o2 in single:
                yield "hist u path %s pm[%s;%s]" % (hx(p), o1, o2)
                if tier == "thorough":
                    yield "hist u ref %s pm[%s;%s]" % (hx("//h" + ("/" + p if p and not p.startswith("/") else p)), o1, o2)
    # two and three edits through one handle starting from (or passing through) the shield states,
    # in place behind an authority with something after the path, and stand-alone
    shields = ["/./", "//a", "/.//a", "/.", "./", ".//a", "/", "", "//", "/.//", "./a:b"]
    steps = ["push:" + hx("a"), "push:" + hx(""), "pop", "push:" + hx("a:b"), "spush:" + hx(".."), "norm", "clear"]
    for p in shields:
        for o1 in steps:
            for o2 in steps:
                # ... and the same two edits through the owned buffer's own methods (which need not go
                # through the handle), both families
                for f in "ui":
                    yield "hist %s path %s %s %s" % (f, hx(p), o1, o2)
                yield "hist u path %s pm[%s;%s]" % (hx(p), o1, o2)
                if p.startswith("/") or p == "":
                    yield "hist u ref %s pm[%s;%s]" % (hx("s://h" + p + "?query#frag"), o1, o2)
                    yield "hist i ref %s pm[%s;%s;push:%s]" % (hx("//h:" + p + "#f"), o1, o2, hx("z"))
                else:
                    yield "hist u ref %s pm[%s;%s]" % (hx(p + "?query#frag"), o1, o2)
    # the colon shield behind non-ASCII text, and behind text that is no scheme (`1:b`, `%61:b`, `a_b:c`, `:b`)
    for seg in ["é:b", "a中:b", "日:本", "1:b", "%61:b", "a_b:c", ":b", "a@b:c", "-:x", "~:x"]:
        f = "u" if seg.isascii() else "i"
        for p in ["", ".", "x", "x/..", "./" + seg, "x/../" + seg, "./x/../" + seg, seg + "/../" + seg]:
            for op in ["push:" + hx(seg), "spush:" + hx(seg), "sapp:" + hx(seg), "sapp:" + hx("../" + seg), "norm", "pop;push:" + hx(seg)]:
                yield "hist %s path %s pm[%s]" % (f, hx(p), op)
                yield "hist %s ref %s pm[%s]" % (f, hx(p + "?q"), op)
    for p in long_paths():
        for op in ["norm", "pop", "push:" + hx("z"), "sapp:" + hx("../y"), "norm;pop;norm"]:
            yield "hist u path %s pm[%s]" % (hx(p), op)
        if not p.startswith("/"):
            yield "hist u ref %s pm[norm]" % hx(p + "?q#f")
            if not p.startswith("a:"):
                yield "hist i ref %s pm[norm]" % hx("s:" + p)
        else:
            yield "hist i ref %s pm[norm]" % hx("s://h" + p + "#f")
    # single and double edits through the path handle on the references built around the dictionary
    pm_single = ["pop", "push:" + hx("x"), "push:" + hx(""), "spush:" + hx(".."), "norm", "clear", "sapp:" + hx("../../x"), "sapp:" + hx("./")]
    for b in dict_focus():
        for o1 in pm_single:
            for f in "ui":
                yield "hist %s ref %s pm[%s]" % (f, hx(b), o1)
            yield "hist u ref %s pm[%s;pop;push:%s]" % (hx(b), o1, hx("c"))
            yield "hist u ref %s pm[spush:%s;%s]" % (hx(b), hx(".."), o1)
    for t in [x for x in SEGS if x in FRESH][:40]:
        for p in [t, t + "/", "a/" + t, "a/" + t + "/", "/" + t + "/", "/" + t + "/b"]:
            for o1 in pm_single + ["push:" + hx(t), "spush:" + hx(t), "sapp:" + hx(t + "/..")]:
                yield "hist u path %s pm[%s]" % (hx(p), o1)
                yield "hist i path %s pm[%s;pop]" % (hx(p), o1)
    # climbing out of a shielded relative path: the `.` shield left behind by a pop is not a segment
    shielded = [".//x", ".//x/y", "./a:b", "./a:b/c", ".//", "./", ".", "./x", "a", "a/b", "..", "../a"]
    climbs = ["..", "../..", "../../..", "../../../z", "../z", "../../z", "../../../..", "./..", "../."]
    for p in shielded:
        for c in climbs:
            steps = ";".join("spush:" + hx(x) for x in c.split("/"))
            for f in "ui":
                yield "hist %s path %s pm[sapp:%s]" % (f, hx(p), hx(c))
                yield "hist %s path %s pm[%s]" % (f, hx(p), steps)
                yield "hist %s path %s pm[norm;sapp:%s]" % (f, hx(p), hx(c))
                yield "hist %s ref %s pm[sapp:%s]" % (f, hx(p + "?q#f"), hx(c))
                if ":" not in p:
                    yield "hist %s ref %s pm[sapp:%s]" % (f, hx("s:" + p), hx(c))
                    yield "hist %s ref %s pm[%s]" % (f, hx("s:" + p + "#f"), steps)
    n = 9000 if tier == "quick" else 100000
    for _ in range(n):
        f = rng.choice("ui")
        ops = pm_ops(rng, f, rng.choice([1, 2, 3, 5, 8]))
        if rng.random() < 0.5:
            yield "hist %s path %s pm[%s]" % (f, hx(rand_path(rng, f, "any")), ";".join(ops))
        else:
            yield "hist %s ref %s pm[%s]" % (f, hx(rand_ref(rng, f)), ";".join(ops))


def stream_authmut(rng, tier):
    """C11"""
    U, H, _, _, _ = fam_lists("u")
    # tails whose query / fragment / path contain the authority's own delimiters: a scanner that
    # runs past the end of the authority finds them
    hostile = ["?@", "#@", "?u@h:1", "#u@h:1", "/@", "/:@", "?:9", "#:9", "?a@b#c@d"]
    tails = ["", "/", "/p", "/p?q#f", "?q", "#f", "//a"] + hostile
    vals_u = [None, "", "u", "longuser", "u:p"]
    vals_h = ["", "h", "longhost.example", "[::1]", "1.2.3.4"]
    vals_p = [None, "", "1", "8080"]
    single = ["ui:" + ohx(v) for v in vals_u] + ["host:" + hx(v) for v in vals_h] + \
             ["port:" + ohx(v) for v in vals_p]
    auths = [("" if u is None else u + "@") + h + ("" if p is None else ":" + p)
             for u in [None, "", "u", "u:p"] for h in ["", "h", "[::1]", "1.2.3.4"] for p in [None, "", "1"]]
    for a in auths:
        for t in tails if tier == "thorough" else ["", "/p?q#f"] + hostile[:5]:
            for pre in ["s:", ""]:
                b = pre + "//" + a + t
                for o1 in single:
                    if tier != "thorough" and t in hostile and rng.random() < 0.5:
                        continue
                    yield "hist u ref %s am[%s]" % (hx(b), o1)
                    if tier == "thorough" or rng.random() < 0.3:
                        yield "hist i ref %s am[%s]" % (hx(b), o1)
                        if pre:
                            yield "hist u full %s am[%s]" % (hx(b), o1)
                            yield "hist i full %s am[%s]" % (hx(b), o1)
                    if tier == "thorough" or rng.random() < 0.15:
                        for o2 in single:
                            yield "hist u ref %s am[%s;%s]" % (hx(b), o1, o2)
    # the dictionary: every policy scheme with every port and host the sources mention (all that are
    # new against the baseline, a few of the rest), set through the handle
    dports = [p for p in PORTS if p in FRESH] + [p for p in PORTS if p is not None and p not in FRESH][:8]
    dhosts = [h for h in HOSTS if h in FRESH][:40] + ["h", "localhost"]
    for sc in [x for x in SCHEMES if x in FRESH][:24] + POLICY_SCHEMES[:6]:
        for b in [sc + "://h/p", sc + "://u@h:1/p?q#f", sc + "://h"]:
            for pt in dports:
                for f in "ui":
                    yield "hist %s ref %s am[port:%s]" % (f, hx(b), hx(pt))
                    yield "hist %s full %s am[port:%s]" % (f, hx(b), hx(pt))
            for h in dhosts:
                yield "hist u ref %s am[host:%s]" % (hx(b), hx(h))
                yield "hist u full %s am[host:%s]" % (hx(b), hx(h))
    # respellings: the new sub-component equals the old one after percent-decoding only
    resp = [("s://ex%61mple.org:80/p", "host:" + hx("example.org")), ("s://example.org:80/p", "host:" + hx("ex%61mple.org")),
            ("s://%65xample.org/foo", "host:" + hx("example.org")), ("s://h%c3%a9/", "host:" + hx("h%C3%A9")),
            ("//%75ser@h/", "ui:" + hx("user")), ("//user@h/", "ui:" + hx("us%65r")), ("//us%2Fer@h:1/?q", "ui:" + hx("us%2fer"))]
    for b, o in resp:
        for f in "ui":
            yield "hist %s ref %s am[%s]" % (f, hx(b), o)
            yield "hist %s ref %s am[port:%s;%s]" % (f, hx(b), hx("40"), o)
            yield "hist %s ref %s am[%s;port:%s]" % (f, hx(b), o, hx("40"))
    n = 9000 if tier == "quick" else 100000
    for _ in range(n):
        f = rng.choice("ui")
        _, _, _, Q, F = fam_lists(f)
        q, fr = rng.choice(Q), rng.choice(F)
        b = rng.choice(SCHEMES) + "://" + rand_authority(rng, f) + \
            rand_path(rng, f, rng.choice(["abempty", "empty"])) + \
            ("" if q is None else "?" + q) + ("" if fr is None else "#" + fr)
        ops = am_ops(rng, f, rng.choice([1, 2, 3, 5, 8]))
        yield "hist %s %s %s am[%s]" % (f, rng.choice(["ref", "full"]), hx(b), ";".join(ops))


def stream_resolve(rng, tier):
    """C06"""
    bases = ["s:", "s:a", "s:a/b", "s:/", "s:/a/b", "s://h", "s://h/", "s://h/a/b", "s://h/a/b/",
             "s:a/../b", "s:/a//b", "s://h//a/b?q", "s://h/a//b", "s://h//b", "s://h/a/./b/../c", "s:?q", "s://h?q#f", "s:a/b?q", "s://h///x", "s://h:/a",
             "http://a/b/c/d;p?q", "s:..", "s:../x", "s://h/..", "s:/.//a", "s:a/"]
    k = 4 if tier == "quick" else 6
    for r in exhaustive("a/.:?#", k):
        for b in bases if tier == "thorough" else bases[:15]:
            yield "resolve u %s %s" % (hx(b), hx(r))
    for r in dict_refs():
        for b in ["s://h/a/b", "s:a/b", "s:/a", "s://h/a/b?q#f"]:
            yield "resolve u %s %s" % (hx(b), hx(r))
        for r2 in ["", "#s", "?y", "g", "./g/.", "../g", "/g", "//g", "../../../g", "g/../h/."]:
            yield "resolve u %s %s" % (hx(r), hx(r2))
            yield "resolve i %s %s" % (hx(r), hx(r2))
    for r in exhaustive("a/.", 4 if tier == "quick" else 5):
        for b in ["s://h/a/b", "s:a/b", "s:/a"]:
            yield "resolve u %s %s" % (hx(b), hx("//h2" + ("/" + r if r else "")))
            yield "resolve u %s %s" % (hx(b), hx("t:" + r))
    rfc = ["g:h", "g", "./g", "g/", "/g", "//g", "?y", "g?y", "#s", "g#s", "g?y#s", ";x", "g;x",
           "g;x?y#s", "", ".", "./", "..", "../", "../g", "../..", "../../", "../../g",
           "../../../g", "../../../../g", "/./g", "/../g", "g.", ".g", "g..", "..g", "./../g",
           "./g/.", "g/./h", "g/../h", "g;x=1/./y", "g;x=1/../y", "g?y/./x", "g?y/../x", "g#s/./x",
           "g#s/../x", "http:g"]
    for r in rfc:
        for f in "ui":
            yield "resolve %s %s %s" % (f, hx("http://a/b/c/d;p?q"), hx(r))
    # bases without authority whose relative path is shielded or climbs, against climbing references
    rel_bases = ["s:.//x", "s:.//x/y", "s:.//x/y/z", "s:./x", "s:a", "s:a/b/c", "s:../a/b", "s:..", "s:./", "s:.",
                 "s:.//", "s:a//b", "s:.///x"]
    climbs = ["..", "../..", "../../..", "../../../z", "../z", "../../z", "../../../..", "./..", "../.", "z",
              "../../../../z", "./", ".", "..//z", "../a:b", "../../a:b"]
    for b in rel_bases:
        for r in climbs:
            for f in "ui":
                yield "resolve %s %s %s" % (f, hx(b), hx(r))
                yield "resolve %s %s %s" % (f, hx(b + "?q"), hx(r + "#f"))
    n = 12000 if tier == "quick" else 200000
    for _ in range(n):
        f = rng.choice("ui")
        yield "resolve %s %s %s" % (f, hx(rand_ref(rng, f, True)), hx(rand_ref(rng, f)))


CMP_COMPONENTS = ["a", "A", "%41", "%61", "", "%C3%A9", "%c3%a9", "%FF", "%C0%AF", "%2F", "/",
                  "%E2%82%AC", "%ED%A0%80", "a%2Eb", "a.b", "%2E", ".", "b", "ab", "%80", "%C3", "é"]


def stream_cmp(rng, tier):
    """C07 / C08"""
    comps = CMP_COMPONENTS if tier == "thorough" else CMP_COMPONENTS[:16]
    for kind in ["segment", "userinfo", "host", "query", "fragment"]:
        for a in comps:
            for b in comps:
                for f in "ui":
                    if f == "u" and ("é" in a or "é" in b):
                        continue
                    yield "cmp %s %s %s %s" % (f, kind, hx(a), hx(b))
    # every delimiter a component may hold literally, against its escaped spelling: equal after
    # percent-decoding, whatever the character means to an application (`&`, `=`, `+`, `;` in a query)
    delims = {"segment": "!$&'()*+,;=:@", "userinfo": "!$&'()*+,;=:", "host": "!$&'()*+,;=",
              "query": "!$&'()*+,;=:@/?", "fragment": "!$&'()*+,;=:@/?"}
    wrap = {"segment": "s://h/p/%s?q#f", "userinfo": "s://%s@h/p", "host": "s://%s/p", "query": "s://h/p?%s#f", "fragment": "s://h/p?q#%s"}
    for kind, ds in delims.items():
        for d in ds:
            lit, esc, esl = "k" + d + "v", "k%%%02X" % ord(d) + "v", "k%%%02x" % ord(d) + "v"
            for a, b in [(lit, esc), (esc, lit), (esc, esl), (lit, lit), (lit, "k" + ("-" if d != "-" else "_") + "v")]:
                for f in "ui":
                    yield "cmp %s %s %s %s" % (f, kind, hx(a), hx(b))
                    yield "cmp %s full %s %s" % (f, hx(wrap[kind] % a), hx(wrap[kind] % b))
                    yield "cmp %s ref %s %s" % (f, hx((wrap[kind] % a)[2:]), hx((wrap[kind] % b)[2:]))
                yield "cross u %s %s" % (hx(wrap[kind] % a), hx(wrap[kind] % b))
    for a, b in policy_pairs():
        for f in "ui":
            yield "cmp %s full %s %s" % (f, hx(a), hx(b))
        yield "cross u %s %s" % (hx(a), hx(b))
    # a value against what its accessors hand out as slices of it (`base()`, the part before the
    # query, before the fragment): the harness also compares them as views into one buffer
    for a in ["https://example.org/a/b/c?q#f", "s://h/a/b", "s:/a/b/", "s:a/b?q", "s://h?q#f", "//h/a/b#f", "a/b/c?q", "/a/b/c"]:
        cuts = set([a.split("#")[0], a.split("?")[0].split("#")[0], a[:a.split("?")[0].split("#")[0].rfind("/") + 1], a])
        for b in cuts:
            if b:
                for f in "ui":
                    yield "cmp %s ref %s %s" % (f, hx(a), hx(b))
                    if ":" in a.split("/")[0] and ":" in b.split("/")[0]:
                        yield "cmp %s full %s %s" % (f, hx(a), hx(b))
    # every value the sources newly mention, in every component that may hold it, against spellings
    # whose byte order and case-folded order disagree (`B…` sorts before `a…` as bytes, after it
    # without case), its own upper / lower case, and a neighbour
    for kind, lst in [("host", HOSTS), ("segment", SEGS), ("userinfo", USERINFOS), ("query", QUERIES), ("fragment", FRAGS)]:
        for t in [x for x in lst if isinstance(x, str) and x in FRESH][:30]:
            for a, b in [("B" + t, "a" + t), (t, t.upper()), (t, t.lower()), (t.capitalize(), t), (t + "B", t + "a"),
                         ("B" + t, "C.x"), ("C.x", "a" + t), (t, t + "x")]:
                for f in "ui":
                    yield "cmp %s %s %s %s" % (f, kind, hx(a), hx(b))
                    yield "cmp %s full %s %s" % (f, hx(wrap[kind] % a), hx(wrap[kind] % b))
                yield "cross u %s %s" % (hx(wrap[kind] % a), hx(wrap[kind] % b))
    for a in dict_refs():
        for b in [a, a.upper(), a.lower(), a + "/", a.replace("//", "//localhost", 1) if "//" in a else a + "x"]:
            for f in "ui":
                yield "cmp %s ref %s %s" % (f, hx(a), hx(b))
                yield "cmp %s full %s %s" % (f, hx(a), hx(b))
    paths = ["", "/", "a", "/a", "a/", "a/.", "a/./", "a/b/..", "a/b/../", "..", "../a", "a/../..",
             "/..", "/a/..", "//", "/./", "./", ".", "a//b", "a/b", "%61", "a/%2E", "a/./b", "/.//a",
             "//a", "a/../b", "b", "%2e", "a/%2E%2E/..", "%2e%2e/..", "/%2E%2E/../b", "/b", "a/%2E/..",
             # a segment boundary against an escaped delimiter or control octet inside one segment
             "a%00b", "a%00a", "a%2Fb", "a%2fb", "/x/a/", "/x/a%00", "a%01b", "a%FFb", "a/%00", "%00/a",
             # a `..` that survives normalisation against a segment that merely decodes to `..`
             "%2E%2E/a", ".%2e/a", "%2e./a", "../%2E%2E", "%2E%2E", "../../x", "%2E%2E/%2E%2E/x", "../%2E%2E/x", "%2E%2E/../x",
             "%2E", "./%2E", "%2E/a", "/%2E%2E", "/%2E%2E/a"]
    for a in paths:
        for b in paths:
            yield "cmp u path %s %s" % (hx(a), hx(b))
    auths = ["h", "H", "%68", "u@h", "@h", "h:", "h:1", "h:01", "u:p@h:1", "[::1]", "[::1]:1", "",
             "%FF@h", "u@%FF", "[::A]", "[::a]", "[v1.Ab]", "[v1.aB]", "U@h", "u@H", "h:1A", "[2001:DB8::1]", "[2001:db8::1]"]
    for a in ["[::A]", "[::a]", "[v1.Ab]", "[v1.aB]", "[::FFFF:1.2.3.4]", "[::ffff:1.2.3.4]", "ExAmple", "example", "%45xample"]:
        for b in ["[::A]", "[::a]", "[v1.Ab]", "[v1.aB]", "[::FFFF:1.2.3.4]", "[::ffff:1.2.3.4]", "ExAmple", "example", "%45xample"]:
            for f in "ui":
                yield "cmp %s host %s %s" % (f, hx(a), hx(b))
                yield "cmp %s full %s %s" % (f, hx("s://" + a + "/p?q#f"), hx("s://" + b + "/p?q#f"))
                yield "cross %s %s %s" % (f, hx("s://" + a + "/p"), hx("s://" + b + "/p"))
    for a in auths:
        for b in auths:
            yield "cmp u authority %s %s" % (hx(a), hx(b))
    refs = ["s:", "s:a", "s:%61", "S:a", "s:/a", "s://h/a", "s://H/a", "s://h:1/a", "s://h/a/.",
            "s://h/a/./", "s://h/a/b/..", "s:a?q", "s:a?", "s:a#", "s:a#f", "s:a?%71", "s:%FF",
            "s:%C0%AF", "s:/", "s://h", "s://h/", "s:a/../b", "s:b"]
    for a in refs:
        for b in refs:
            yield "cmp u full %s %s" % (hx(a), hx(b))
            yield "cmp u ref %s %s" % (hx(a), hx(b))
            yield "cmp u fullref %s %s" % (hx(a), hx(b))
            yield "cmp i full %s %s" % (hx(a), hx(b))
    refs += ["s:a?z", "s:b?y", "s:a#z", "s:b#y", "s://h/a?z", "s://h/b?y", "s://g/a?z#1", "s://h/a?y#2"]
    # two components that order the pair in opposite directions: every adjacent pair of components
    opp = [("a:b?x#2", "a:b?y#1"), ("s://h/p#b", "s://h/p?q#a"), ("s://g/b", "s://h/a"), ("s://h:2/a", "s://h:1/b"),
           ("s://u@h/b", "s://v@h/a"), ("a://z", "b://y"), ("s://h/a?2", "s://h/b?1"), ("s:a#2", "s:b#1"), ("s://g?2", "s://h?1"),
           # one path is the other plus one, two, three segments
           ("s:/a/b", "s:/a"), ("s://e/a", "s://e/"), ("s:a/b", "s:a"), ("s:x", "s:"), ("s:/a/b/c", "s:/a"), ("s:/a/b/c/d", "s:/a"),
           ("s://e/a/b", "s://e/a/"), ("s:/a/", "s:/a")]
    for a, b in opp:
        for x, y in [(a, b), (b, a)]:
            for f in "ui":
                yield "cmp %s full %s %s" % (f, hx(x), hx(y))
                yield "cmp %s ref %s %s" % (f, hx(x), hx(y))
                yield "cmp %s fullref %s %s" % (f, hx(x), hx(y)) if f == "u" else "cmp i ref %s %s" % (hx(x.split(":", 1)[1]), hx(y.split(":", 1)[1]))
                yield "cross %s %s %s" % (f, hx(x), hx(y))
    refs += ["s:a:b", "s:a%3Ab", "s:./a:b", "s:a:./b", "urn:isbn:1", "urn:isbn%3A1", "urn:./isbn:1", "s:a:b/c", "s:x/../a:b"]
    rels = ["", "a", "./a", "a/b", "/a", "//h", "//h/a", "?q", "#f", "a?q#f", "../a", "a/..", "%61"]
    for a in rels + refs[:8]:
        for b in rels + refs[:8]:
            yield "cmp u ref %s %s" % (hx(a), hx(b))
            yield "cmp i ref %s %s" % (hx(a), hx(b))
    # every provided cross-type `==` / `partial_cmp` (reference, full, owned, borrowed)
    for a in refs + rels:
        for b in refs + rels:
            yield "cross u %s %s" % (hx(a), hx(b))
            yield "cross i %s %s" % (hx(a), hx(b))
    n = 9000 if tier == "quick" else 100000
    for _ in range(n):
        f = rng.choice("ui")
        a = rand_ref(rng, f, True)
        b = a if rng.random() < 0.2 else rand_ref(rng, f, True)
        if rng.random() < 0.3:
            # an equivalent spelling: insert `./` or `x/../` in the path
            b = a.replace("/a", "/./a", 1) if rng.random() < 0.5 else a.replace("/a", "/x/../a", 1)
        yield "cmp %s full %s %s" % (f, hx(a), hx(b))
        yield "cmp %s ref %s %s" % (f, hx(a), hx(b))
        if rng.random() < 0.5:
            c = rand_ref(rng, f) if rng.random() < 0.5 else b
            yield "cross %s %s %s" % (f, hx(a), hx(c))
            yield "cross %s %s %s" % (f, hx(c), hx(a))
    for a in refs + rels:
        yield "hash u ref %s" % hx(a)
        yield "hash i ref %s" % hx(a)
    for a in refs:
        yield "hash u full %s" % hx(a)
        yield "hash i full %s" % hx(a)
    for a in paths:
        yield "hash u path %s" % hx(a)
    for a in auths:
        yield "hash u authority %s" % hx(a)
    for a in comps:
        if "é" not in a:
            yield "hash u segment %s" % hx(a)
        yield "hash i query %s" % hx(a)


# authorities and schemes a well-meant "policy" could treat as the same thing (RFC 8089 `file://localhost`,
# default ports, `www.`, a trailing dot, letter case): they differ as texts and as keys
POLICY_SCHEMES = ["file", "FILE", "http", "https", "ws", "ftp", "urn", "mailto", "s"]
POLICY_AUTHS = [("", "localhost"), ("localhost", "LOCALHOST"), ("localhost", "127.0.0.1"), ("example.com", "www.example.com"),
                ("h", "h:80"), ("h", "h:443"), ("h:80", "h:443"), ("h", "h."), ("h", "h:"), ("", "h"), ("u@h", "h"), ("h", "h")]


def policy_pairs():
    for sc in POLICY_SCHEMES:
        for x, y in POLICY_AUTHS:
            for pa, pb in [("/a/b", "/a"), ("/a/b", "/a/c"), ("/a", "/a"), ("", "")]:
                yield sc + "://" + x + pa, sc + "://" + y + pb
                yield sc + "://" + y + pa, sc + "://" + x + pb


def long_paths():
    out = []
    for unit, k in [("seg/", 140), ("s/", 300), ("abcdefgh/", 20), ("x/", 17), ("x/", 16), ("x/", 15)]:
        body = unit * k
        for pre in ["", "/", "./", "../", "/./", ".//"]:
            for suf in ["x", "", ".", "..", "x/.", "x/.."]:
                out.append(pre + body + suf)
    out += ["./" + "x" * 600, "x" * 600 + "/.", "/" + "x" * 520, "a/" * 8 + "../" * 8 + "b/" * 17, "a:" + "b/" * 300]
    return out


def stream_paths(rng, tier):
    """C12 and the read-only half of C09"""
    k = 6 if tier == "quick" else 8
    for p in exhaustive("a/.", k):
        yield "pathq u %s" % hx(p)
    for p in exhaustive("a/:.", 4 if tier == "quick" else 6):
        yield "pathq u %s" % hx(p)
    for p in exhaustive("é/.", 4 if tier == "quick" else 5):
        yield "pathq i %s" % hx(p)
    for p in exhaustive("a/", 5 if tier == "quick" else 7):
        n = len([c for c in p if c == "/"]) + 2
        for sched in itertools.product("fb", repeat=min(n, 6 if tier == "quick" else 8)):
            yield "segs u %s %s" % (hx(p), "".join(sched))
        for sched in itertools.product("fb", repeat=min(n - 1, 3)):
            for t in "clz":
                yield "segs u %s %s" % (hx(p), "".join(sched) + t)
                yield "segs i %s %s" % (hx(p), "".join(sched) + t)
    # the segments the dictionary newly brought, right next to dot segments
    for t in [x for x in SEGS if x in FRESH][:60]:
        for p in [t + "/..", "a/" + t + "/../b", "/" + t + "/..", t + "/./..", t + "/../..", "x/" + t, "/" + t + "/../lib/x", t + "/", "/a/" + t + "/",
                  t, "../" + t, t + "/.", "/x/" + t + "/./../y"]:
            for f in "ui":
                yield "pathq %s %s" % (f, hx(p))
                yield "segs %s %s fbfb" % (f, hx(p))
    # escaped dots are ordinary segments, also right next to literal dot segments
    dotty = ["a", "%2E%2E", "%2e", "..", ".", ""]
    for n in (1, 2, 3, 4):
        for combo in itertools.product(dotty, repeat=n):
            if not any("%" in c for c in combo):
                continue
            for lead in ("", "/"):
                p = lead + "/".join(combo)
                if p.startswith("//"):
                    continue
                yield "pathq u %s" % hx(p)
                if tier == "thorough" or n < 4:
                    yield "pathq i %s" % hx(p)
    # paths beyond the inline buffers (16 segments, 512 bytes), with at most one dot segment and
    # that one at either end
    for p in long_paths():
        for f in "ui":
            yield "pathq %s %s" % (f, hx(p))
    n = 9000 if tier == "quick" else 100000
    for _ in range(n):
        f = rng.choice("ui")
        p = rand_path(rng, f, "any", 6)
        yield "pathq %s %s" % (f, hx(p))
        yield "segs %s %s %s" % (f, hx(p), "".join(rng.choice("fb") for _ in range(rng.randrange(1, 10))))
        yield "segs %s %s %s" % (f, hx(p), "".join(rng.choice("fbNB") for _ in range(rng.randrange(1, 6))) + rng.choice(["", "c", "l"]))
        # ... and what is left, consumed through `count()`, `last()`, `size_hint()`
        yield "segs %s %s %s" % (f, hx(p), "".join(rng.choice("fb") for _ in range(rng.randrange(0, 6))) + rng.choice("clz"))


def stream_relto(rng, tier):
    """C15"""
    k = 3 if tier == "quick" else 4
    vals = ["s:" + p for p in exhaustive("a/.", k)] + ["s://h" + ("/" + p if p else "") for p in exhaustive("a/", k)]
    vals += ["s:?q", "s:a?q", "s:a#f", "s://h/a?q#f", "t:a", "s://g/a", "s://h/a/b/c", "s://h/a/b/d",
             "https://crates.io/", "https://crates.io/crates/iref", "https://crates.io/crates/json-ld"]
    if tier == "quick":
        pairs = [(rng.choice(vals), rng.choice(vals)) for _ in range(6000)]
    else:
        pairs = [(a, b) for a in vals for b in vals]
    for a, b in pairs:
        yield "relto u %s %s" % (hx(a), hx(b))
    # the target continues the base literally: the remainder must still be written as a relative
    # reference (a first segment with ':' needs its './', an empty one its shield, ...)
    dirs = ["s://h/ns/", "s://h/", "s:/a/", "s:a/", "s://h/a/b/", "http://example.org/ns/", "s://h/ns", "s://h/ns/x",
            "s://h/ns/?q", "s://h/ns/#f", "s://h/n%73/", "s://H/ns/", "s://h/ns/./", "s://h/ns/x/../"]
    tails = ["a:b", "urn:isbn:0451450523", ":", "a:b/c", "c/a:b", "", "x", "x/", "/x", "//x", ".", "..", "./x", "../x",
             "a:b?q", "a:b#f", "?q", "#f", "x?q#f", "%3A", "a%3Ab", "é:b"]
    for d in dirs:
        for t in tails:
            base = d.split("?")[0].split("#")[0]
            for f in "ui":
                if f == "u" and "é" in t:
                    continue
                yield "relto %s %s %s" % (f, hx(base + t), hx(d))
                yield "relto %s %s %s" % (f, hx(d), hx(base + t))
                yield "reltoref %s %s %s" % (f, hx(base + t), hx(d))
                if d.startswith("s://h"):
                    yield "reltoref %s %s %s" % (f, hx((base + t)[2:]), hx(d[2:]))
                    yield "reltoref %s %s %s" % (f, hx((base + t)[5:]), hx(d[5:]))
    # authorities that differ in spelling only, or in one sub-component only
    apairs = [("h:", "h"), ("h", "h:"), ("u@h", "h"), ("h", "@h"), ("H", "h"), ("h:80", "h:080"), ("%68", "h"),
              ("h:80", "h"), ("u:p@h", "u@h"), ("[::1]", "[::1]:"), ("[::A]", "[::a]"), ("h.", "h"), ("h", "h")]
    for x, y in apairs:
        for pa, pb in [("/a/b", "/a/c"), ("/a/b/", "/a/b/c"), ("", "/a"), ("/", ""), ("/a?q", "/a")]:
            for f in "ui":
                yield "relto %s %s %s" % (f, hx("s://" + x + pa), hx("s://" + y + pb))
    for a, b in policy_pairs():
        for f in "ui":
            yield "relto %s %s %s" % (f, hx(a), hx(b))
    for a in dict_refs():
        stem = a.split("#")[0].split("?")[0]
        for b in [a, stem, stem.rsplit("/", 1)[0] if "/" in stem else stem, stem + "/x/y", a.upper()]:
            for f in "ui":
                yield "relto %s %s %s" % (f, hx(a), hx(b))
                yield "relto %s %s %s" % (f, hx(b), hx(a))
    # the same document, or the same directory, with every combination of absent / empty / non-empty
    # query and fragment on either side (an empty query is not an absent one)
    qs, fs = [None, "", "q", "x=1"], [None, "", "f"]
    for stem, other in [("http://example.org/a/b", "http://example.org/a/b"), ("s://h/a/", "s://h/a/"), ("s://h", "s://h"),
                        ("s:/a", "s:/a"), ("s:a/b", "s:a/b"), ("s://h/a/b", "s://h/a/c"), ("s://h/a/b", "s://h/a/./b")]:
        for qa in qs:
            for fa in fs:
                for qb in qs:
                    for fb in fs:
                        a = stem + ("" if qa is None else "?" + qa) + ("" if fa is None else "#" + fa)
                        b = other + ("" if qb is None else "?" + qb) + ("" if fb is None else "#" + fb)
                        yield "relto u %s %s" % (hx(a), hx(b))
                        if qa == "" or qb == "" or fa == "" or fb == "":
                            yield "relto i %s %s" % (hx(a), hx(b))
    # the same-document shortcut compares texts: a base whose last segment *decodes* to the rest of
    # the target (escaped `/`, escaped letters, escaped dots) is another document
    for d in ["s://h/docs/", "s://h/", "s:/a/", "s:a/"]:
        for t in ["api/v1", "a/b", "x", "x/", "a/b/c", "./x", "a.b"]:
            for enc in [t.replace("/", "%2F"), t.replace("/", "%2f"), t.replace("a", "%61"), t.replace(".", "%2E"), t]:
                for suf in ["?p=2", "#f", "", "?p#f"]:
                    for f in "ui":
                        yield "relto %s %s %s" % (f, hx(d + t + suf), hx(d + enc))
                        yield "relto %s %s %s" % (f, hx(d + enc + suf), hx(d + t))
                        yield "relto %s %s %s" % (f, hx(d + t + suf), hx(d + enc + "?bq"))
    n = 6000 if tier == "quick" else 100000
    for _ in range(n):
        f = rng.choice("ui")
        a = rand_ref(rng, f, True)
        b = rand_ref(rng, f, True)
        yield "relto %s %s %s" % (f, hx(a), hx(b))
        yield "reltoref %s %s %s" % (f, hx(rand_ref(rng, f)), hx(rand_ref(rng, f)))


def stream_suffix(rng, tier):
    """C16"""
    k = 4 if tier == "quick" else 5
    ps = [p for p in exhaustive("a/.", k)]
    if tier == "quick":
        pairs = [(rng.choice(ps), rng.choice(ps)) for _ in range(8000)]
    else:
        pairs = [(a, b) for a in ps for b in ps if len(a) + len(b) <= 7]
    for a, b in pairs:
        yield "psuffix u %s %s" % (hx(a), hx(b))
    refs = ["s:/a/b/c?q#f", "s:/a", "s:/a/", "s://h/a/b", "s://h/a", "s://g/a", "t:/a", "/a/b", "/a",
            "a/b", "a", "", "s://h", "s://h/", "s:/a/%62", "s:/a/b/../c", "//h/a", "s://%68/a"]
    for a in refs:
        for b in refs:
            yield "suffix u ref %s %s" % (hx(a), hx(b))
            yield "suffix i ref %s %s" % (hx(a), hx(b))
            if a.startswith(("s:", "t:")) and b.startswith(("s:", "t:")):
                yield "suffix u full %s %s" % (hx(a), hx(b))
                yield "suffix i full %s %s" % (hx(a), hx(b))
    # a value against itself, and against itself without its query / fragment
    for a in refs + ["http://example.org/dir/file?q#f", "s://h/a/?q", "s:/a#f", "//h/a/b?q#f", "a/b?q", "?q#f", "#f"]:
        for t in ["", "?q", "#f", "?q#f"] if "?" not in a and "#" not in a else [""]:
            v = a + t
            for f in "ui":
                yield "suffix %s ref %s %s" % (f, hx(v), hx(v))
                yield "suffix %s ref %s %s" % (f, hx(v), hx(v.split("#")[0].split("?")[0]))
                if v.startswith(("s:", "t:", "http:")):
                    yield "suffix %s full %s %s" % (f, hx(v), hx(v))
                    yield "suffix %s full %s %s" % (f, hx(v), hx(v.split("#")[0].split("?")[0]))
    for a, b in policy_pairs():
        for f in "ui":
            yield "suffix %s full %s %s" % (f, hx(a), hx(b))
            yield "suffix %s ref %s %s" % (f, hx(a), hx(b))
    for a in dict_refs():
        stem = a.split("#")[0].split("?")[0]
        for b in [a, stem, stem.rsplit("/", 1)[0] if "/" in stem else stem, a.upper()]:
            for f in "ui":
                yield "suffix %s full %s %s" % (f, hx(a), hx(b))
                yield "suffix %s ref %s %s" % (f, hx(a), hx(b))
        yield "base u ref %s" % hx(a)
        yield "base u full %s" % hx(a)
    # the same path pairs inside whole references, through each of the four entry points: a prefix
    # spelt with dot segments is textually longer than the value it is a prefix of
    aps = [p for p in exhaustive("a/.", 4)]
    if tier == "quick":
        ppairs = [(rng.choice(aps), rng.choice(aps)) for _ in range(1500)]
    else:
        ppairs = [(a, b) for a in aps for b in aps if len(a) + len(b) <= 6]
    ppairs += [("b/c", "x/../b"), ("a/b", "./././a"), ("a", "a/b/.."), ("a/b", "a/./."), ("a/b/c", "a/x/y/../../b"),
               ("a", "./a"), ("a/b", "../a"), ("", "."), ("a", "a/."), ("a/", "a/b/..")]
    for a, b in ppairs:
        for ctx in ["s://h/", "s:/", "s:", "//h/", "/", ""]:
            va, vb = ctx + a, ctx + b
            tail = rng.choice(["", "?q", "#f", "?q#f"])
            for f in "ui":
                yield "suffix %s ref %s %s" % (f, hx(va + tail), hx(vb))
                if ctx.startswith("s:"):
                    yield "suffix %s full %s %s" % (f, hx(va + tail), hx(vb))
    for s in exhaustive("a:/?#.", 5 if tier == "quick" else 6):
        yield "base u ref %s" % hx(s)
        if ":" in s:
            yield "base u full %s" % hx(s)
    n = 6000 if tier == "quick" else 50000
    for _ in range(n):
        f = rng.choice("ui")
        a = rand_ref(rng, f)
        yield "base %s ref %s" % (f, hx(a))
        yield "suffix %s ref %s %s" % (f, hx(a), hx(rand_ref(rng, f)))
        fa = rand_ref(rng, f, True)
        # a prefix of the same value: its base, or the value with its last segments dropped
        fb = fa.split("?")[0].split("#")[0].rsplit("/", rng.choice([1, 1, 2]))[0] if rng.random() < 0.6 else rand_ref(rng, f, True)
        yield "suffix %s full %s %s" % (f, hx(fa), hx(fb))
        if rng.random() < 0.2:
            yield "suffix %s full %s %s" % (f, hx(fa), hx(fa))
            yield "suffix %s ref %s %s" % (f, hx(a), hx(a))
        yield "base %s full %s" % (f, hx(fa))
        yield "psuffix %s %s %s" % (f, hx(rand_path(rng, f, "any")), hx(rand_path(rng, f, "any", 2)))


def stream_views(rng, tier):
    """C08: views of one value used interchangeably as map keys"""
    for s in exhaustive("a:/?#.", 4 if tier == "quick" else 5):
        if ":" in s:
            yield "views u %s" % hx(s)
    for s in exhaustive("é:/?#", 4):
        if ":" in s:
            yield "views i %s" % hx(s)
    n = 6000 if tier == "quick" else 50000
    for _ in range(n):
        f = rng.choice("ui")
        yield "views %s %s" % (f, hx(rand_ref(rng, f, True)))


def stream_convert(rng, tier):
    """C13: every conversion between the eight kinds"""
    for s in exhaustive("a:/?#é", 4 if tier == "quick" else 5):
        for k in ("uri", "uriref", "iri", "iriref"):
            yield "convert %s %s" % (k, hx(s))
    n = 9000 if tier == "quick" else 100000
    for _ in range(n):
        f = rng.choice("ui")
        full = rng.random() < 0.5
        s = rand_ref(rng, f, full)
        for k in ("uri", "uriref", "iri", "iriref"):
            yield "convert %s %s" % (k, hx(s))
    # C13, second half: the same ASCII operation in both families (both are compared with one
    # family-generic model, hence with each other)
    for _ in range(n // 3):
        b = rand_ref(rng, "u")
        op = setter_op(rng, "u")
        yield "hist u ref %s %s" % (hx(b), op)
        yield "hist i ref %s %s" % (hx(b), op)
        ops = ";".join(pm_ops(rng, "u", 3))
        yield "hist u ref %s pm[%s]" % (hx(b), ops)
        yield "hist i ref %s pm[%s]" % (hx(b), ops)
        base = rand_ref(rng, "u", True)
        yield "resolve u %s %s" % (hx(base), hx(b))
        yield "resolve i %s %s" % (hx(base), hx(b))
        yield "parts u ref %s" % hx(b)
        yield "parts i ref %s" % hx(b)
        yield "cmp u ref %s %s" % (hx(b), hx(base))
        yield "cmp i ref %s %s" % (hx(b), hx(base))
        yield "hash u ref %s" % hx(b)
        yield "hash i ref %s" % hx(b)
        # ... and the same edits through the authority handle
        ab = rng.choice(SCHEMES) + "://" + rand_authority(rng, "u") + rand_path(rng, "u", rng.choice(["abempty", "empty"]))
        aops = ";".join(am_ops(rng, "u", rng.choice([1, 2, 3])))
        for kind in ("ref", "full"):
            yield "hist u %s %s am[%s]" % (kind, hx(ab), aops)
            yield "hist i %s %s am[%s]" % (kind, hx(ab), aops)
        # two full values that differ in two components at once (an ordering that visits the
        # components in another order in one family shows only there)
        _, _, _, Q, F = fam_lists("u")
        stem = base.split("#")[0].split("?")[0]
        q1, q2, f1, f2 = rng.choice(Q), rng.choice(Q), rng.choice(F), rng.choice(F)
        x = stem + ("" if q1 is None else "?" + q1) + ("" if f1 is None else "#" + f1)
        y = stem + ("" if q2 is None else "?" + q2) + ("" if f2 is None else "#" + f2)
        for kind in ("full", "ref"):
            yield "cmp u %s %s %s" % (kind, hx(x), hx(y))
            yield "cmp i %s %s %s" % (kind, hx(x), hx(y))
    opp = [("a:b?x#2", "a:b?y#1"), ("s://h/p#b", "s://h/p?q#a"), ("s://g/b", "s://h/a"), ("s://h:2/a", "s://h:1/b"),
           ("s://u@h/b", "s://v@h/a"), ("a://z", "b://y"), ("s://h/a?2", "s://h/b?1"), ("s:a#2", "s:b#1"), ("s://g?2", "s://h?1"),
           # one path is the other plus one, two, three segments
           ("s:/a/b", "s:/a"), ("s://e/a", "s://e/"), ("s:a/b", "s:a"), ("s:x", "s:"), ("s:/a/b/c", "s:/a"), ("s:/a/b/c/d", "s:/a"),
           ("s://e/a/b", "s://e/a/"), ("s:/a/", "s:/a")]
    # relativisation, suffix and resolution on the references built around the dictionary, both families
    foc = dict_focus(16)
    for i, a in enumerate(foc):
        for b in foc[max(0, i - 3):i + 4] + [a.split("#")[0].split("?")[0] + "/x/y"]:
            for f in "ui":
                yield "relto %s %s %s" % (f, hx(a), hx(b))
                yield "suffix %s full %s %s" % (f, hx(a), hx(b))
                yield "resolve %s %s %s" % (f, hx(a), hx(b))
    # `base()` of every kind of value, both families and both types
    for a in ["http://example.org", "http://example.org?q", "http://user@[::1]:80#frag", "s://h/a/b?q#f", "s:/a/b", "s:a/b", "s:", "s:?q",
              "//h", "//h/a/", "a/b/c", "/a", "", "?q", "#f", "s://h/a?x/y#z/w"]:
        for f in "ui":
            yield "base %s ref %s" % (f, hx(a))
            if ":" in a.split("/")[0]:
                yield "base %s full %s" % (f, hx(a))
    for _ in range(n // 6):
        a = rand_ref(rng, "u", True)
        for f in "ui":
            yield "base %s full %s" % (f, hx(a))
            yield "base %s ref %s" % (f, hx(a))
    # stand-alone path buffers edited through the handle, both families (shield states included)
    for p0 in ["//a/./b", "//a", "/./", "/.//a", "//", "/a/b", "a/b", "", "/", ".//a", "./a:b", "//a/b/../..", "/a//b"]:
        for ops in ["norm", "pop", "push:" + hx("b"), "pop;push:" + hx("b"), "push:" + hx(""), "spush:" + hx(".."), "norm;pop;norm",
                    "clear;push:" + hx(""), "sapp:" + hx("../x//y")]:
            yield "hist u path %s pm[%s]" % (hx(p0), ops)
            yield "hist i path %s pm[%s]" % (hx(p0), ops)
    # every single edit of the authority handle, empty values included, in both families
    for ab in ["s://h", "s://h/p", "s://u@h:1/p?q#f", "s://h:", "s://@h", "//h"]:
        for o1 in ["ui:" + ohx(v) for v in [None, "", "u", "u:p"]] + ["host:" + hx(v) for v in ["", "h", "[::1]"]] + \
                ["port:" + ohx(v) for v in [None, "", "1", "080"]]:
            for f in "ui":
                yield "hist %s ref %s am[%s]" % (f, hx(ab), o1)
                if ab.startswith("s:"):
                    yield "hist %s full %s am[%s]" % (f, hx(ab), o1)
    for x, y in opp + [(b, a) for a, b in opp]:
        for kind in ("full", "ref"):
            yield "cmp u %s %s %s" % (kind, hx(x), hx(y))
            yield "cmp i %s %s %s" % (kind, hx(x), hx(y))
        yield "cross u %s %s" % (hx(x), hx(y))
        yield "cross i %s %s" % (hx(x), hx(y))


def stream_routes(rng, tier):
    """C14: textual routes out of a value (routes in are the `ctor` stream)"""
    kinds = KINDS_U + KINDS_I
    n = 400 if tier == "quick" else 10000
    # characters that `str`'s own Debug escapes although an IRI may contain them literally
    # (combining marks, zero-width and bidi controls, private use, non-characters' neighbours)
    dbg = ["e\u0301", "\u200b", "\u202e", "\u00ad", "\u0300a", "\ue000", "\U000e0100", "\u2060", "a\u0308\u0301", "\ufeff"]
    for kind in kinds:
        for _ in range(n if kind in ("uri", "uriRef", "iri", "iriRef") else n // 4):
            yield "routes %s %s" % (kind, hx(sample_for_kind(rng, kind)))
        for s in exhaustive("a:/?#\"\\é", 3):
            yield "routes %s %s" % (kind, hx(s))
        if kind.startswith("iri"):
            for d in dbg:
                for base in ["", "a", "/caf", "x/y"]:
                    yield "routes %s %s" % (kind, hx(base + d))
                    yield "routes %s %s" % (kind, hx("s://h/" + base + d + "?" + d + "#" + d))
    # escapes that do not decode to UTF-8, or only up to the end of the component: still the text as it is
    for kind in ["uriUserInfo", "uriHost", "uriQuery", "uriFragment", "uriSegment", "uriPath", "uri", "uriRef",
                 "iriUserInfo", "iriHost", "iriQuery", "iriFragment", "iriSegment", "iriPath", "iri", "iriRef"]:
        for t in ["a%80b", "%ff", "x%20y%C3", "%C3", "%E2%82", "%C0%AF", "%ED%A0%80", "%F5", "%41%80", "%80", "a%FFb%FE"]:
            v = ("s:" + t) if kind in ("uri", "iri") else t
            yield "routes %s %s" % (kind, hx(v))
    for kind in KINDS_U + KINDS_I:
        for _ in range(n // 2):
            s = sample_for_kind(rng, kind)
            yield "ctor %s %s" % (kind, hx(s))
            yield "ctor %s %s" % (kind, hx(mutate(rng, s)))
        for b in BAD_UTF8:
            yield "ctor %s %s" % (kind, hx(b))
        yield from special_ctor_lines(rng, kind)
    # comparison with plain text / bytes is comparison of the text (never of decoded or normalised forms)
    seq = {"uri": ["s:a", "s:%61", "s:a/./b", "S:a"], "uriRef": ["a", "%61", "./a", "a/../a", ""],
           "uriPath": ["a", "%61", "a/.", "/a", "", "abcdefgh"], "uriAuthority": ["h", "H", "%68", "u@h:1"],
           "uriUserInfo": ["u", "%75", ""], "uriHost": ["h", "%68", "H"], "uriQuery": ["q", "%71", ""],
           "uriFragment": ["f", "%66", ""]}
    for kind, vals in seq.items():
        for k2 in [kind, "i" + kind[1:]]:
            vs = vals + (["é", "%C3%A9"] if k2.startswith("i") else [])
            for a in vs:
                for b in vs:
                    yield "streq %s %s %s" % (k2, hx(a), hx(b))
                yield "streq %s %s %s" % (k2, hx(a), hx(a + "x"))
                yield "streq %s %s %s" % (k2, hx(a), hx(b"\xff" + a.encode()))
    for _ in range(n):
        kind = rng.choice(["uri", "uriRef", "iri", "iriRef", "uriPath", "iriPath"])
        a = sample_for_kind(rng, kind)
        b = a if rng.random() < 0.5 else sample_for_kind(rng, kind)
        yield "streq %s %s %s" % (kind, hx(a), hx(b))
    # conversions from sibling types are routes in too: feed the full types with references
    # (where the reference can be built, converting it must agree with the target's constructor)
    rel = ["?a:b", "#a:b", "foo?k=v:w", "?q#time=12:30", "a/b?c:d", "./a:b", "/a:b", "//h:80/p", "a:b", "a:", ":a",
           "//h?a:b", "p#x:y", "?é:b", "é?a:b", "", "?", "#"]
    for kind in ["uri", "iri", "uriRef", "iriRef"]:
        f = "i" if kind.startswith("i") else "u"
        for r in rel:
            if f == "i" or "é" not in r:
                yield "ctor %s %s" % (kind, hx(r))
        for _ in range(n):
            yield "ctor %s %s" % (kind, hx(rand_ref(rng, rng.choice("ui"))))
    # the borrowed and owned conversions between the eight types, one value after another in reused
    # allocations (the harness also re-judges the same allocation holding another text of the same length)
    for r in ["//example.org/ab?q", "a/bc", "s:xy", "/ab", "?qq", "#ff", "s://h/ab", "//example.org/abc?q9", "xy"]:
        for k in ("uri", "uriref", "iri", "iriref"):
            yield "convert %s %s" % (k, hx(r))
    for _ in range(n):
        r = rand_ref(rng, "u")
        for k in ("uriref", "iriref"):
            yield "convert %s %s" % (k, hx(r))


DATA_MT = ["", "text/plain", "a", "image/png", "a#b", "a/b+c", "text/plain;charset=utf-8", "a;x=1", "é", "a b", "A.-_^!$&",
           "a;base64;x=1", "base64", "a;x=base64", "text%2Fplain", "%41", "a%", "%", "a%2Cb", "a%3Bbase64"]
# media types at and beyond the boundaries of 8- and 16-bit offsets
DATA_MT_LONG = ["t/" + "x" * 253, "t/" + "x" * 254, "t/" + "x" * 255, "a/b;p=" + "v" * 300, "m" * 65535, "m" * 65536,
                "m/" + "x" * 66000]
DATA_BODY = ["", "A", "SGVsbG8=", "SGVsbG8", "QQ==", "QQ=", "Q", "QR==", "A%20B", "a,b", "a;b", "#f", "a#f", "?q",
             "////", "+/+/", "AAAA", "AAA=", "AAB=", "=", "====", "QUJD", "QUJDRA==", "é",
             # the data part may itself contain the markers the accessors look for
             ";base64,", "a;base64,Yg==", ";base64,QQ==", "x,y;base64,z", ";base64", "data:a,b"]


def stream_dataurl(rng, tier):
    """C18"""
    for mt in DATA_MT:
        for b64 in ["", ";base64", ";base64x", ";base6", ";BASE64"]:
            for body in DATA_BODY:
                for pre in ["data:", "dat:", "DATA:", "data"]:
                    yield "dataurl %s" % hx(pre + mt + b64 + "," + body)
                yield "dataurl %s" % hx("data:" + mt + b64 + body)
    for mt in DATA_MT_LONG:
        for b64 in ["", ";base64"]:
            for body in ["", "QQ==", "a,b#f"]:
                yield "dataurl %s" % hx("data:" + mt + b64 + "," + body)
        yield "dataurl %s" % hx("data:" + mt)
    for s in exhaustive("da:,;b", 5 if tier == "quick" else 6):
        yield "dataurl %s" % hx(s)
        yield "dataurl %s" % hx("data:" + s)
    n = 3000 if tier == "quick" else 50000
    b64c = "ABCDabcd0189+/="
    for _ in range(n):
        body = "".join(rng.choice(b64c) for _ in range(rng.randrange(0, 12)))
        yield "dataurl %s" % hx("data:" + rng.choice(DATA_MT) + ";base64," + body)
        yield "dataurl %s" % hx(mutate(rng, "data:" + rng.choice(DATA_MT) + rng.choice(["", ";base64"]) + "," + body))


PCT_ATOMS = ["a", "%41", "%C3%A9", "%c3%a9", "é", "%E2%82%AC", "%F0%9F%98%80", "%80", "%BF", "%C3", "%E2%82",
             "%C0%AF", "%E0%80%AF", "%ED%A0%80", "%F4%90%80%80", "%F5", "%FF", "%C3a", "%2F", "%25", "-", "~", "%00",
             "%E2", "%82", "%AC", "%F0%9F", "%98%80", "%c0%80", "%FE", "%7F", "%C2%80"]


PCT_MARKERS = [":~:", "a:~:text=b%20c", "~:~", "!/x", "a=1&b=2;c=3", "q=a+b", "xn--bcher-kva", "www.a", "..", ".", "a..b",
               "%2B+", "&amp;", ";jsessionid=1", ";v=1", "@", "a@b", "::", "~", "%7e%7E", "-._~"]


def stream_pct(rng, tier):
    """C19"""
    kinds = ["segment", "userinfo", "host", "query", "fragment"]
    for a in PCT_ATOMS:
        for b in [""] + PCT_ATOMS:
            for kind in kinds if tier == "thorough" else kinds[:2]:
                for f in "ui":
                    if f == "u" and "é" in a + b:
                        continue
                    yield "pct %s %s %s" % (f, kind, hx(a + b))
    n = 6000 if tier == "quick" else 100000
    for _ in range(n):
        f = rng.choice("ui")
        s = "".join(rng.choice(PCT_ATOMS) for _ in range(rng.randrange(0, 5)))
        if f == "u":
            s = s.replace("é", "e")
        yield "pct %s %s %s" % (f, rng.choice(kinds), hx(s))
        # sub-delims, `=`/`+`/`&` and friends around escapes (what form-encoding or "canonicalising"
        # code would touch), per kind with the delimiters that kind allows
        k2 = rng.choice(kinds)
        extra = {"segment": (":", "@"), "userinfo": (":",), "host": (), "query": (":", "@", "/", "?"),
                 "fragment": (":", "@", "/", "?")}[k2]
        yield "pct %s %s %s" % (f, k2, hx(rand_component(rng, f, extra, private=(k2 == "query"))))
    for mk in PCT_MARKERS:
        for k3 in kinds:
            allowed = {"segment": ":@", "userinfo": ":", "host": "", "query": ":@/?", "fragment": ":@/?"}[k3]
            if any(c in ":@/?" and c not in allowed for c in mk):
                continue
            for f in "ui":
                yield "pct %s %s %s" % (f, k3, hx(mk))
                yield "pct %s %s %s" % (f, k3, hx("x" + mk + "y"))
    for s in exhaustive("a%4C3é", 4 if tier == "quick" else 5):
        yield "pct i segment %s" % hx(s)
    # components reached from a whole reference (parts, authority parts, segment iteration)
    for a in ALIAS:
        for t in ["/na%sve", "/%s", "//u%s@h%s/%s/x?%s#%s", "%s/%s", "s://h/a%s/../%s", "?%s", "#%s"]:
            yield "pctref i %s" % hx(t.replace("%s", a))
    for a in PCT_ATOMS:
        for t in ["/x%s", "//h/%s/%s?%s#%s", "s:%s"]:
            yield "pctref i %s" % hx(t.replace("%s", a))
            if "é" not in a:
                yield "pctref u %s" % hx(t.replace("%s", a))
    # runs of escapes touching the delimiters on either side (a scanner that steps over an escape
    # must still look at the byte behind it)
    esc = ["%41", "%e2%82%ac", "%c3%a9", "%c3%a9%41", "%41%42%43", "%2F", "%3f", "%23", "%25"]
    for e in esc:
        for t in ["s://h/p?x=5%s#top", "?%s#f", "p%s?q%s#f%s", "/a%s/b%s?%s", "//u%s@h/%s?%s#%s", "s:%s?%s", "%s#%s", "s://h%s/p",
                  "s://h/p?%s", "s://h/p#%s", "/x/%s", "/%s/x/../%s"]:
            for f in "ui":
                yield "pctref %s %s" % (f, hx(t.replace("%s", e)))
                yield "parts %s ref %s" % (f, hx(t.replace("%s", e)))
    n = 4500 if tier == "quick" else 60000
    for _ in range(n):
        f = rng.choice("ui")
        yield "pctref %s %s" % (f, hx(rand_ref(rng, f)))


def stream_ptr(rng, tier):
    """C20"""
    for s in exhaustive("a:/?#@.", 4 if tier == "quick" else 6):
        yield "ptr u ref %s" % hx(s)
        if ":" in s:
            yield "ptr u full %s" % hx(s)
    for s in exhaustive("é:/?#", 4):
        yield "ptr i ref %s" % hx(s)
    for s in ["?time=10:30", "#L10:5", "page?a:b", "pagé?clé=à:b", "a?b#c:d", "?a:b#c:d", "s:?a:b", "//h?a:b", "/p?a:b@c"]:
        yield "ptr i ref %s" % hx(s)
        if "é" not in s:
            yield "ptr u ref %s" % hx(s)
    for s in dict_refs():
        for f in "ui":
            yield "ptr %s ref %s" % (f, hx(s))
            yield "ptr %s full %s" % (f, hx(s))
    # a delimiter repeated more often than any small inline buffer of positions could hold
    for k in [1, 3, 4, 5, 6, 9, 17, 33, 70]:
        reps = ["s://" + "a:" * k + "b@h:80/p", "s://" + ":" * k + "@h:80/p", "s://u@" + "a." * k + "b:80/",
                "s://u:p@[" + "1:" * min(k, 7) + "1]:80/", "s://h/" + "a/" * k + "b", "s://h/p?" + "a=b&" * k + "c",
                "s://h/p?" + "?" * k, "s://h/p#" + "?/:@" * k, "s:" + "a:" * k + "b", "s://h:80/" + "../" * k + "x",
                "//" + "a:" * k + "b@h:80", "//u@h:" + "8" * k, "s://h/" + "%41" * k, "/" * k, "s://" + "%3A" * k + "@h/"]
        for s0 in reps:
            for f in "ui":
                yield "ptr %s ref %s" % (f, hx(s0))
                if s0.startswith("s:"):
                    yield "ptr %s full %s" % (f, hx(s0))
    n = 9000 if tier == "quick" else 100000
    for _ in range(n):
        f = rng.choice("ui")
        full = rng.random() < 0.4
        yield "ptr %s %s %s" % (f, "full" if full else "ref", hx(rand_ref(rng, f, full)))
    # the borrowed data-URL type: constructor and re-scanning accessors (not `decoded_data`, which
    # is not a borrowed view)
    for mt in DATA_MT[:9] + DATA_MT_LONG[:4]:
        for b64 in ["", ";base64", ";base64x"]:
            for body in DATA_BODY[:14] + ["QUJDRA==" * 40, "x" * 3000]:
                yield "ptrdata %s" % hx("data:" + mt + b64 + "," + body)
    b64c = "ABCDabcd0189+/="
    for _ in range(600 if tier == "quick" else 20000):
        body = "".join(rng.choice(b64c) for _ in range(rng.randrange(0, 40)))
        yield "ptrdata %s" % hx("data:" + rng.choice(DATA_MT) + rng.choice(["", ";base64"]) + "," + body)
    # inputs far larger than any inline buffer
    for k in ([2000, 70000] if tier == "quick" else [2000, 70000, 1200000]):
        big = "s://u@h:1" + "/seg" * k + "/../x?" + "q" * 1000 + "#" + "f" * 1000
        yield "ptrbig u full %s" % hx(big)
        yield "ptrbig i ref %s" % hx(big.replace("seg", "sé"))


# ---------------------------------------------------------------------------
# dictionary: the string literals of the crate's own sources
#
# A special case keyed on a value (`file`, `localhost`, `:~:`, a default port ...) has to spell that
# value in the source.  bin/check extracts every short string literal of the sources under test
# on every run and hands them over here; they join the lists the streams draw from (as schemes,
# hosts, ports, segments, queries, fragments, media types, whole references, each where the
# grammar allows the token), with an upper-case spelling and a one-character extension, so that
# whatever value a change singles out is exercised next to its neighbours.

DICT_LISTS = ["SCHEMES", "HOSTS", "HOSTS_I", "PORTS", "SEGS", "SEGS_I", "QUERIES", "QUERIES_I", "FRAGS", "FRAGS_I",
              "USERINFOS", "USERINFOS_I", "POLICY_SCHEMES", "POLICY_AUTHS", "PCT_MARKERS", "DATA_MT", "DICT_REFS"]
DICT_REFS = []
_ORIG = None
DICT_INFO = {"tokens": 0}
# what the dictionary added for literals that are new against the baseline: the random draws favour it
FRESH = set()


class BiasedRandom(random.Random):
    """`choice` on one of the dictionary-fed lists picks, three times out of ten, among the entries
    that come from literals new in the tree under test (none on the unchanged tree: then this is
    `random.Random`, draw for draw)"""

    def choice(self, seq):
        if FRESH and isinstance(seq, list) and any(seq is globals()[n] for n in DICT_LISTS):
            fresh = [x for x in seq if x in FRESH]
            if fresh and self.random() < 0.3:
                return super().choice(fresh)
        return super().choice(seq)


def _pct_ok(t):
    i = 0
    while i < len(t):
        if t[i] == "%":
            if not re.fullmatch(r"[0-9A-Fa-f]{2}", t[i + 1:i + 3]):
                return False
            i += 3
        else:
            i += 1
    return True


def set_dictionary(tokens, baseline=(), cap=48):
    """`baseline`: the literals of the tree the machinery was written against (dict_baseline.json);
    a literal that is not in it is new in the tree under test and is never dropped by the caps"""
    global _ORIG
    # entries are typed (`s:` string, `c:` character, `n:` number literal): `!` as a string is new even
    # if `'!'` was there before
    typed_base = set(baseline)
    new_typed = [t for t in tokens if t not in typed_base]
    tokens = [t[2:] for t in tokens]
    baseline = set(t[2:] for t in typed_base) - set(t[2:] for t in new_typed)
    g = globals()
    if _ORIG is None:
        _ORIG = {n: list(g[n]) for n in DICT_LISTS}
        _ORIG["ss"] = list(SETTER_VALUES["ss"])
    for n in DICT_LISTS:
        g[n][:] = _ORIG[n]
    SETTER_VALUES["ss"][:] = _ORIG["ss"]
    FRESH.clear()
    raw = set(t for t in tokens if t and t.isascii() and t.isprintable() and not re.search(r"\s", t))
    # a literal such as `jar:`, `;jsessionid=` or `.jar!` is also taken apart: the pieces between
    # delimiters, and the literal without its leading / trailing delimiters
    pieces = set()
    for t in raw:
        for part in re.split(r"[:/?#@;=!,&]+", t):
            if part:
                pieces.add(part)
        st = t.strip(":/?#@;=!,&.")
        if st:
            pieces.add(st)
    new_raw = set(t for t in raw if t not in baseline)
    # two new values often have to meet in one component (`.jar` + `!`): their concatenations
    fresh_list = sorted(new_raw, key=lambda x: (len(x), x))[:12]
    for x in fresh_list:
        for y in fresh_list:
            if x != y and len(x) + len(y) <= 24:
                raw.add(x + y)
                new_raw.add(x + y)
    new_pieces = set()
    for t in new_raw:
        for part in re.split(r"[:/?#@;=!,&]+", t):
            if part:
                new_pieces.add(part)
        st = t.strip(":/?#@;=!,&.")
        if st:
            new_pieces.add(st)
    toks = sorted(raw | pieces, key=lambda x: (len(x), x))
    baseline = set(x for x in toks if x not in new_raw and x not in new_pieces)
    unres = r"A-Za-z0-9._~\-"
    sub = r"!$&'()*+,;="
    cls = {
        "scheme": [t for t in toks if re.fullmatch(r"[A-Za-z][A-Za-z0-9+.\-]*", t) and len(t) <= 12],
        "host": [t for t in toks if re.fullmatch("[%s%s%%]+" % (unres, sub), t) and _pct_ok(t) and len(t) <= 24],
        "port": [t for t in toks if re.fullmatch(r"[0-9]+", t)],
        "seg": [t for t in toks if re.fullmatch("[%s%s%%:@]+" % (unres, sub), t) and _pct_ok(t) and len(t) <= 24],
        "query": [t for t in toks if re.fullmatch("[%s%s%%:@/?]+" % (unres, sub), t) and _pct_ok(t) and len(t) <= 24],
        "media": [t for t in toks if re.fullmatch(r"[A-Za-z0-9.+\-]+/[A-Za-z0-9.+\-]+", t)],
        "ref": [t for t in toks if (":" in t or t.startswith("/") or "?" in t or "#" in t) and len(t) <= 40],
    }

    def pick(name):
        fresh = [t for t in cls[name] if t not in baseline][:200]
        lst = [t for t in cls[name] if t in baseline]
        if len(lst) <= cap:
            return fresh + lst
        # shortest first, then an even sample of the rest
        head, rest = lst[:cap // 2], lst[cap // 2:]
        step = max(1, len(rest) // (cap - cap // 2))
        return fresh + head + rest[::step][:cap - cap // 2]

    fresh_tokens = set(t for t in toks if t not in baseline)

    def new(lst, items):
        seen = set(x for x in lst if isinstance(x, str))
        for it in items:
            if isinstance(it, str) and not _pct_ok(it):
                continue        # a truncated escape: the lists hold valid component texts
            if it not in seen:
                lst.append(it)
                seen.add(it)
            if isinstance(it, str) and any(it == v or it.lower() == v.lower() or it[:-1] == v or it == v[:-1]
                                           or it.lstrip("0") == v or it == v + "0" or it == "a" + v or it == v + "a"
                                           for v in fresh_tokens):
                FRESH.add(it)

    def variants(t):
        return [t, t.upper(), t.lower(), t + "x", t[:-1], "a" + t, t + "a"] if len(t) > 1 else [t, "a" + t, t + "a"]

    sch = [v for t in pick("scheme") for v in variants(t) if re.fullmatch(r"[A-Za-z][A-Za-z0-9+.\-]*", v)]
    new(SCHEMES, sch)
    new(POLICY_SCHEMES, [t for t in pick("scheme") if len(t) >= 3][:16])
    new(SETTER_VALUES["ss"], pick("scheme")[:16])
    hosts = [v for t in pick("host") for v in variants(t) if v]
    new(HOSTS, hosts)
    new(HOSTS_I, hosts)
    for t in pick("host")[:24]:
        for pair in [("", t), (t, t.upper()), (t, t + "."), (t, "www." + t)]:
            if pair not in POLICY_AUTHS and pair[0] != pair[1]:
                POLICY_AUTHS.append(pair)
    new(PORTS, [v for t in pick("port") for v in (t, "0" + t, t + "0")])
    for lst in (SEGS, SEGS_I):
        new(lst, [v for t in pick("seg") for v in variants(t) if v and "/" not in v])
    for lst in (QUERIES, QUERIES_I, FRAGS, FRAGS_I):
        new(lst, pick("query"))
    for lst in (USERINFOS, USERINFOS_I):
        new(lst, [t for t in pick("seg") if "@" not in t][:24])
    new(PCT_MARKERS, pick("query"))
    new(DATA_MT, pick("media"))
    new(DICT_REFS, pick("ref"))
    DICT_INFO["tokens"] = len(toks)
    DICT_INFO["by_class"] = {k: len(v) for k, v in cls.items()}
    DICT_INFO["not_in_baseline"] = [t for t in toks if t not in baseline][:50]


def dict_refs():
    """whole references built around the dictionary: each scheme-like token with and without an
    authority, each reference-like token as it stands"""
    out = []
    for t in DICT_REFS:
        out.append(t)
    for sc in POLICY_SCHEMES:
        for tail in ["", "a", "/a/b", "//h/a/b?q#f", "//", "//h", "///a", "?q", "#f", "a/./b/../c", "//u@h:80/./a/../b",
                     "a:b", "1:b/c", ":x", "a%20b:c", "x/../a:b"]:
            out.append(sc + ":" + tail)
    fsch = [x for x in SCHEMES if x in FRESH][:12] + ["s"]
    fseg = [x for x in SEGS if x in FRESH][:40]
    fq = [x for x in QUERIES if isinstance(x, str) and x in FRESH][:20]
    fhost = [x for x in HOSTS if x in FRESH][:20]
    fport = [x for x in PORTS if isinstance(x, str) and x in FRESH][:10]
    fui = [x for x in USERINFOS if isinstance(x, str) and x in FRESH][:10]
    for sc in fsch:
        for sg in fseg:
            out += [sc + ":" + sg, sc + ":a/" + sg, sc + ":" + sg + "/b", sc + "://h/" + sg, sc + "://h/a/" + sg + "/../c",
                    sc + ":x/" + sg + "/..", sc + "://u@h:1/p/" + sg + "?q#f", sc + ":/" + sg + "/", sg, "a/" + sg, sg + "/b"]
        for q in fq:
            out += [sc + "://h/p?" + q, sc + ":p#" + q, "?" + q, "#" + q, sc + ":a/b?" + q + "#" + q]
        for h in fhost:
            out += [sc + "://" + h, sc + "://" + h + "/p", sc + "://u@" + h + ":1/p"]
            for pt in fport:
                out += [sc + "://" + h + ":" + pt + "/p", sc + "://h:" + pt]
        for pt in fport:
            out += [sc + "://h:" + pt + "/p", "//h:" + pt]
        for u in fui:
            out += [sc + "://" + u + "@h/p", "//" + u + "@h", sc + "://" + u + ":pw@h:1/"]
    seen, res = set(), []
    for r in out:
        if r not in seen:
            seen.add(r)
            res.append(r)
    return res


def dict_focus(limit=24):
    """the dictionary references that involve a value new against the baseline (all of them); on the
    unchanged tree a small even sample, so that the quick tier stays quick"""
    refs = dict_refs()
    if FRESH:
        hot = [r for r in refs if any(v in r for v in FRESH if len(v) > 1 or v in r.split(":")[0])]
        return hot[:4000]
    return refs[::max(1, len(refs) // limit)][:limit]


DICT_EDITS = ["ss:" + ohx(None), "ss:" + hx("s"), "sa:" + ohx(None), "sa:" + hx("h"), "sp:" + hx("a:b"), "sp:" + hx("/x"), "sp:" + hx(""),
              "sq:" + ohx(None), "sq:" + hx("q"), "sf:" + ohx(None), "sf:" + hx("f"),
              "pm[pop]", "pm[push:%s]" % hx("x"), "pm[push:%s]" % hx(""), "pm[spush:%s]" % hx(".."), "pm[norm]", "pm[clear]",
              "pm[pop;push:%s]" % hx("x"), "pm[spush:%s;pop;push:%s]" % (hx(".."), hx("c")), "pm[sapp:%s]" % hx("../../x"),
              "am[port:%s]" % hx("1"), "am[port:%s]" % ohx(None), "am[host:%s]" % hx("h"), "am[ui:%s]" % hx("u")]


STREAMS = {
    "ctor": stream_ctor,
    "parts": stream_parts,
    "auth": stream_auth,
    "setters": stream_setters,
    "history": stream_history,
    "pathmut": stream_pathmut,
    "authmut": stream_authmut,
    "resolve": stream_resolve,
    "cmp": stream_cmp,
    "paths": stream_paths,
    "relto": stream_relto,
    "suffix": stream_suffix,
    "views": stream_views,
    "convert": stream_convert,
    "routes": stream_routes,
    "dataurl": stream_dataurl,
    "pct": stream_pct,
    "ptr": stream_ptr,
}


def generate(stream, seed, tier, automata=None):
    rng = BiasedRandom("%s-%s-%s" % (stream, seed, tier))
    fn = STREAMS[stream]
    if stream == "ctor":
        return fn(rng, tier, automata)
    return fn(rng, tier)


if __name__ == "__main__":
    import sys
    stream, seed, tier = sys.argv[1], int(sys.argv[2]), sys.argv[3]
    automata = json.load(open(sys.argv[4])) if len(sys.argv) > 4 else None
    for line in generate(stream, seed, tier, automata):
        print(line)
