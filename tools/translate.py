#!/usr/bin/env python3
"""Translator: `rustc -Zunpretty=expanded` output of iref-core  ->  Lean `Dfa` literals.

The derive macro `static_regular_grammar::RegularGrammar` turns each grammar entry
point into a `pub fn validate(mut input: impl Iterator<Item = u8|char>) -> bool`
that is a table-driven loop over `match state { Q => match input.next() { ... } }`.
This script transcribes those tables, nothing else.  It is part of the trusted
base for *faithfulness of the transcription only*; the correspondence stream
`ctor` re-checks it on every run by comparing the real constructors with
`Dfa.run` of the emitted literals on the same strings.

usage: translate.py expanded.rs OUT.lean OUT.json
"""
import json
import re
import sys

# (item type, impl type name) -> Lean identifier
NAMES = {
    ("u8", "Uri"): "uri",
    ("u8", "UriRef"): "uriRef",
    ("u8", "Scheme"): "scheme",
    ("u8", "Authority"): "uriAuthority",
    ("u8", "UserInfo"): "uriUserInfo",
    ("u8", "Host"): "uriHost",
    ("u8", "Port"): "port",
    ("u8", "Path"): "uriPath",
    ("u8", "Segment"): "uriSegment",
    ("u8", "Query"): "uriQuery",
    ("u8", "Fragment"): "uriFragment",
    ("char", "Iri"): "iri",
    ("char", "IriRef"): "iriRef",
    ("char", "Authority"): "iriAuthority",
    ("char", "UserInfo"): "iriUserInfo",
    ("char", "Host"): "iriHost",
    ("char", "Path"): "iriPath",
    ("char", "Segment"): "iriSegment",
    ("char", "Query"): "iriQuery",
    ("char", "Fragment"): "iriFragment",
}
ORDER = list(NAMES.values())


class TranslateError(Exception):
    pass


def parse_literal(s, i):
    """parse one u8 or char literal starting at s[i]; return (value, next index)"""
    if s[i] == "'":
        i += 1
        if s[i] == "\\":
            i += 1
            e = s[i]
            if e == "u":
                m = re.match(r"u\{([0-9a-fA-F_]+)\}", s[i:])
                if not m:
                    raise TranslateError("bad unicode escape at %r" % s[i:i + 12])
                v = int(m.group(1).replace("_", ""), 16)
                i += m.end()
            elif e == "x":
                v = int(s[i + 1:i + 3], 16)
                i += 3
            else:
                table = {"n": 10, "r": 13, "t": 9, "0": 0, "\\": 92, "'": 39, '"': 34}
                if e not in table:
                    raise TranslateError("bad escape \\%s" % e)
                v = table[e]
                i += 1
        else:
            v = ord(s[i])
            i += 1
        if s[i] != "'":
            raise TranslateError("unterminated char literal near %r" % s[i - 5:i + 5])
        return v, i + 1
    m = re.match(r"(\d+)u8", s[i:])
    if not m:
        raise TranslateError("bad literal at %r" % s[i:i + 12])
    return int(m.group(1)), i + m.end()


def parse_pattern(p):
    """`a..=b | c | 'x'..='y'` -> list of inclusive (lo, hi)"""
    out = []
    i = 0
    n = len(p)
    while True:
        while i < n and p[i].isspace():
            i += 1
        lo, i = parse_literal(p, i)
        while i < n and p[i].isspace():
            i += 1
        hi = lo
        if p.startswith("..=", i):
            i += 3
            while i < n and p[i].isspace():
                i += 1
            hi, i = parse_literal(p, i)
            while i < n and p[i].isspace():
                i += 1
        if lo > hi:
            raise TranslateError("empty range %d..=%d" % (lo, hi))
        out.append((lo, hi))
        if i >= n:
            break
        if p[i] != "|":
            raise TranslateError("expected | at %r" % p[i:i + 12])
        i += 1
    return out


def split_arms(body):
    """split the inside of `match input.next() { ... }` into (pattern, rhs) pairs"""
    arms = []
    i = 0
    n = len(body)
    while True:
        while i < n and (body[i].isspace() or body[i] == ","):
            i += 1
        if i >= n:
            break
        if body.startswith("None", i):
            j = body.index("=>", i)
            k = body.index(",", j)
            arms.append(("None", body[j + 2:k].strip()))
            i = k + 1
            continue
        if not body.startswith("Some(", i):
            raise TranslateError("unexpected arm start %r" % body[i:i + 20])
        # find the matching ')' taking char literals into account
        j = i + 5
        while True:
            c = body[j]
            if c == "'":
                _, j = parse_literal(body, j)
                continue
            if c == ")":
                break
            j += 1
        pat = body[i + 5:j]
        m = re.match(r"\)\s*=>\s*([^,]*),", body[j:])
        if not m:
            raise TranslateError("bad arm rhs near %r" % body[j:j + 30])
        arms.append((pat.strip(), m.group(1).strip()))
        i = j + m.end()
    return arms


def find_matching_brace(s, i):
    """s[i] == '{'; return index of the matching '}' (char literals respected)"""
    depth = 0
    n = len(s)
    while i < n:
        c = s[i]
        if c == "'":
            # char literal or lifetime; only treat as literal when it parses as one
            try:
                _, j = parse_literal(s, i)
                i = j
                continue
            except Exception:
                i += 1
                continue
        if c == '"':
            i += 1
            while s[i] != '"':
                if s[i] == "\\":
                    i += 1
                i += 1
            i += 1
            continue
        if c == "{":
            depth += 1
        elif c == "}":
            depth -= 1
            if depth == 0:
                return i
        i += 1
    raise TranslateError("unbalanced braces")


def translate(src):
    automata = {}
    for m in re.finditer(
            r"pub fn validate\(mut input: impl Iterator<Item = (u8|char)>\)\s*->\s*bool\s*\{", src):
        ty = m.group(1)
        impls = list(re.finditer(r"^\s*impl (\w+) \{", src[:m.start()], re.M))
        if not impls:
            raise TranslateError("validate without enclosing impl")
        tname = impls[-1].group(1)
        key = (ty, tname)
        if key not in NAMES:
            raise TranslateError("unexpected validated type %s over %s" % (tname, ty))
        if NAMES[key] in automata:
            raise TranslateError("duplicate automaton for %s" % NAMES[key])
        end = find_matching_brace(src, m.end() - 1)
        body = src[m.end():end]
        mi = re.search(r"let mut state = (\d+)u32;", body)
        if not mi:
            raise TranslateError("no initial state for %s" % NAMES[key])
        init = int(mi.group(1))
        states = {}
        n_some = 0
        for sm in re.finditer(r"(\d+)u32\s*=>\s*match input\.next\(\)\s*\{", body):
            q = int(sm.group(1))
            close = find_matching_brace(body, sm.end() - 1)
            inner = body[sm.end():close]
            arms = split_arms(inner)
            final = None
            trans = []
            default_seen = False
            for pat, rhs in arms:
                if pat == "None":
                    mm = re.fullmatch(r"break (true|false)", rhs)
                    if not mm or final is not None:
                        raise TranslateError("bad None arm in state %d of %s" % (q, NAMES[key]))
                    final = mm.group(1) == "true"
                    continue
                n_some += 1
                if default_seen:
                    raise TranslateError("arm after default in state %d of %s" % (q, NAMES[key]))
                if pat == "_":
                    default_seen = True
                    if rhs == "break false":
                        continue
                    mm = re.fullmatch(r"(\d+)u32", rhs)
                    if not mm:
                        raise TranslateError("bad default arm %r" % rhs)
                    trans.append(([(0, 0x10FFFF)], int(mm.group(1))))
                    continue
                mm = re.fullmatch(r"(\d+)u32", rhs)
                if not mm:
                    raise TranslateError("bad arm rhs %r in state %d of %s" % (rhs, q, NAMES[key]))
                trans.append((parse_pattern(pat), int(mm.group(1))))
            if final is None:
                raise TranslateError("state %d of %s has no None arm" % (q, NAMES[key]))
            if q in states:
                raise TranslateError("duplicate state %d" % q)
            states[q] = (final, trans)
        # cross-checks
        if sorted(states) != list(range(len(states))):
            raise TranslateError("state ids of %s are not dense" % NAMES[key])
        if n_some != len(re.findall(r"Some\(", body)):
            raise TranslateError("arm count mismatch in %s" % NAMES[key])
        if init not in states:
            raise TranslateError("initial state missing in %s" % NAMES[key])
        for q, (_, trans) in states.items():
            for rs, t in trans:
                if t not in states:
                    raise TranslateError("dangling target %d in %s" % (t, NAMES[key]))
        automata[NAMES[key]] = {
            "item": ty,
            "init": init,
            "states": [[states[q][0], [[rs, t] for rs, t in states[q][1]]] for q in range(len(states))],
        }
    missing = [n for n in ORDER if n not in automata]
    if missing:
        raise TranslateError("missing automata: %s" % missing)
    return automata


def to_lean(automata):
    out = ["import IrefVerif.Model.Dfa", "",
           "/-! GENERATED by /verif/tools/translate.py from the macro expansion of /repo. Do not edit. -/",
           "", "namespace IrefVerif.Gen", ""]
    for name in ORDER:
        a = automata[name]
        rows = []
        for fin, trans in a["states"]:
            ts = ", ".join("([%s], %d)" % (", ".join("(%d, %d)" % (lo, hi) for lo, hi in rs), t)
                           for rs, t in trans)
            rows.append("  (%s, [%s])" % ("true" if fin else "false", ts))
        out.append("def %s : Dfa := { init := %d, states := #[\n%s] }\n"
                   % (name, a["init"], ",\n".join(rows)))
    out.append("end IrefVerif.Gen")
    return "\n".join(out) + "\n"


def main():
    src = open(sys.argv[1]).read()
    automata = translate(src)
    lean = to_lean(automata)
    with open(sys.argv[2], "w") as f:
        f.write(lean)
    with open(sys.argv[3], "w") as f:
        json.dump(automata, f)
    print("translated %d automata: %s" % (
        len(automata), " ".join("%s=%d" % (n, len(automata[n]["states"])) for n in ORDER)))


if __name__ == "__main__":
    try:
        main()
    except TranslateError as e:
        print("TRANSLATE-ERROR: %s" % e)
        sys.exit(2)
